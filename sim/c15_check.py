"""Check driver for C15."""
import copy
import json
import random
import os
import sys
import time
from collections import Counter

from sim import c15, core
from sim.driver import Report, seeds_for

PROP = "C15"
TIERS = {"quick": {"cases": 110000, "budget": 50.0, "sweep": False}, "thorough": {"cases": 3000000, "budget": 600.0, "sweep": True}}
BATCH = 400
IDLE = 15.0


def _batch_task(cases):
    """Runs in a worker: stream the batch through grandchildren, restarting after a stalled case."""
    merged = None
    suspects = []
    start = 0
    harness = []
    while start < len(cases):
        status, msgs = core.run_in_child_stream(c15.run_batch_cases, (cases[start:],), idle_timeout=IDLE)
        done = [m for m in msgs if m[0] == "done"]
        hbs = [m[1] for m in msgs if m[0] == "hb"]
        excs = [m[1] for m in msgs if m[0] == "exc"]
        if done:
            merged = merge(merged, done[0][1])
            break
        if excs:
            harness.append(excs[0][-1500:])
            break
        if status == "timeout" and hbs:
            suspects.append(cases[start + hbs[-1]])
            start = start + hbs[-1] + 1
            continue
        harness.append(f"batch child ended with status {status} after {len(hbs)} cases")
        if hbs:
            suspects.append(cases[start + hbs[-1]])
            start = start + hbs[-1] + 1
            continue
        break
    return {"summary": merged, "suspects": suspects, "harness": harness}


def merge(a, b):
    if a is None:
        b = dict(b)
        b["nontrivial"] = set(b["nontrivial"])
        b["dropped"] = set(b["dropped"])
        return b
    for k in ("cases", "skipped", "steps", "wf_rejects", "native_rejected_malformed"):
        a[k] += b[k]
    for k in ("outcomes", "by_fault", "fired"):
        for kk, v in b[k].items():
            a[k][kk] = a[k].get(kk, 0) + v
    a["viol"].extend(b["viol"])
    a["max_ratio"] = max(a["max_ratio"], b["max_ratio"])
    a["max_cpu"] = max(a.get("max_cpu", 0.0), b.get("max_cpu", 0.0))
    a["nontrivial"] |= set(b["nontrivial"])
    a["dropped"] |= set(b["dropped"])
    return a


def _single_task(case):
    out = {}

    def emit(m):
        out.setdefault("m", []).append(m)

    c15.run_batch_cases([case], emit)
    done = [m for m in out.get("m", []) if m[0] == "done"]
    return done[0][1] if done else None


def run_solo(case, timeout=60.0):
    status, out = core.run_in_child(_single_task, (case,), timeout=timeout)
    if status != "ok":
        return None, status, str(out)[-1500:]
    return out, status, None


def same_sig(a, b):
    """Time verdicts about the same class are the same violation whichever symptom (step budget, CPU time,
    stall) and decoder showed it."""
    a, b = tuple(a), tuple(b)
    if a and b and a[0] == b[0] == "time":
        return a[:2] == b[:2]
    return a == b


def has_sig(summary, sig):
    return summary is not None and any(same_sig(v["sig"], sig) for v in summary["viol"])


def minimize(case, sig):
    best = copy.deepcopy(case)
    trials = 0

    def ok(cand):
        nonlocal trials
        trials += 1
        s, _, _ = run_solo(cand)
        return has_sig(s, sig)

    if best.get("chunks"):
        cand = dict(best, chunks=None)
        if ok(cand):
            best = cand
    if best.get("cfg") != "default":
        cand = dict(best, cfg="default")
        if ok(cand):
            best = cand
    i = len(best["faults"]) - 1
    while i >= 0 and len(best["faults"]) > 1:
        cand = dict(best, faults=best["faults"][:i] + best["faults"][i + 1 :])
        if ok(cand):
            best = cand
        i -= 1
    # shrink numeric arguments of the remaining faults toward small values
    for fi, f in enumerate(best["faults"]):
        for key in ("len", "off"):
            if key in f and isinstance(f[key], int) and f[key] > 1 and trials < 40:
                for newv in (1, f[key] // 2):
                    cand = copy.deepcopy(best)
                    cand["faults"][fi][key] = newv
                    if ok(cand):
                        best = cand
                        break
    return best, trials


def summarize(v):
    o = v["out"]
    c = v["case"]
    what = o.get("exc") or o.get("detail") or o["outcome"]
    return f"{c['decoder']} on {c['doc']} ({c['cfg']}) with faults {json.dumps(c['faults'])[:300]}: {o['outcome']} {what} at {o.get('frame', '-')}: {str(o.get('detail', ''))[:160]}"


def sweep_cases():
    """Every truncation offset and one seeded bit flip per byte position, for every document and byte decoder."""
    cases = []
    for dec in ("xml-lxml", "xml-native", "json"):
        store = c15.Store.xml if dec.startswith("xml") else c15.Store.json
        for name in sorted(store):
            data = store[name][0]
            n = len(data if isinstance(data, bytes) else data.encode())
            for off in range(n + 1):
                cases.append({"seed": -1, "decoder": dec, "doc": name, "faults": [{"k": "truncate", "off": off}], "chunks": None, "cfg": "default"})
            for off in range(n):
                cases.append({"seed": -1, "decoder": dec, "doc": name, "faults": [{"k": "bitflip", "off": off, "bit": (off * 7 + n) % 8}], "chunks": None, "cfg": "default"})
    return cases


def value_sweep_cases(part=0, parts=1):
    """Every value-bearing place of every document x every junk value of its lexical family (plus a dozen others):
    the enumerated counterpart of the sampled value corruption. `part` of `parts` selects a slice."""
    import zlib

    cases = []
    n = 0
    for name in sorted(c15.Store.xml):
        values = c15.xml_values(c15.Store.xml[name][0])
        for i, cur in enumerate(values):
            for j in c15.sweep_junk(cur, zlib.crc32(f"{name}:{i}".encode())):
                n += 1
                if n % parts != part:
                    continue
                dec = ("xml-lxml", "xml-native", "xml-src-native", "xml-native", "xml-lxml", "xml-src-lxml")[n // parts % 6]
                cfg = ("default", "default", "strictconv", "default", "lenient")[n // parts % 5]
                cases.append({"seed": -2, "decoder": dec, "doc": name, "faults": [{"k": "value_set", "idx": i, "idx2": 0, "val": j}], "chunks": None, "cfg": cfg})
    for name in sorted(c15.Store.json):
        try:
            doc = json.loads(c15.Store.json[name][0])
        except Exception:
            continue
        leaves = c15.json_value_leaves(doc)
        for i, path in enumerate(leaves):
            for j in c15.sweep_junk(str(c15._get(doc, path)), zlib.crc32(f"{name}:{i}".encode())):
                n += 1
                if n % parts != part:
                    continue
                dec = ("json", "dict")[n // parts % 2]
                cfg = ("default", "default", "strictconv", "lenient")[n // parts % 4]
                cases.append({"seed": -2, "decoder": dec, "doc": name, "faults": [{"k": "value_set", "idx": i, "idx2": 0, "val": j}], "chunks": None, "cfg": cfg})
            # ... and a seeded dozen of the non-text JSON values (null, numbers, arrays, objects, generic-element shapes)
            order = list(range(len(c15.JUNK_JSON)))
            random.Random(zlib.crc32(f"{name}:{i}:json".encode())).shuffle(order)
            for j in order[:12]:
                n += 1
                if n % parts != part:
                    continue
                dec = ("json", "dict")[n // parts % 2]
                cases.append({"seed": -2, "decoder": dec, "doc": name, "faults": [{"k": "value_set", "idx": i, "idx2": 0, "val": j, "junk": "json"}], "chunks": None, "cfg": ("default", "lenient")[n // parts % 2]})
    return cases


def explore(cases, deadline, report, agg, first_by_sig, suspects):
    batches = [cases[i : i + BATCH] for i in range(0, len(cases), BATCH)]

    def on_result(idx, status, out):
        if status != "ok":
            report.harness_errors.append(f"batch {idx}: {status}: {str(out)[-800:]}")
            return
        for h in out["harness"]:
            report.harness_errors.append(f"batch {idx}: {h}")
        suspects.extend(out["suspects"])
        s = out["summary"]
        if s is None:
            return
        agg["summary"] = merge(agg.get("summary"), s)
        for v in s["viol"]:
            first_by_sig.setdefault(tuple(v["sig"]), v)
            agg["sigs"][tuple(v["sig"])] += 1

    res = core.run_batch(_batch_task, batches, timeout=3600.0, deadline=deadline, on_result=on_result, per_item_fork=False)
    return len(res) == len(batches)


def check(args):
    t0 = time.time()
    tier = TIERS[args.tier]
    ncases = args.runs or tier["cases"]
    budget = args.budget or tier["budget"]
    core.reexec_pinned()
    core.bootstrap()
    c15.build_store()
    c15.runtime_codes()
    t_setup = time.time() - t0
    report = Report(PROP)
    for name in core.Z.slow_ops[:6]:
        # a call on a VALID pool document did not return within 20 s when the pool was warmed up
        op_kind = name.split(":")[0]
        if op_kind in ("parse_xml", "parse_json", "dict_decode", "tree_parse", "user_parse"):
            sig = ("time", "pool:" + name.split(":")[2 if op_kind == "parse_xml" else 1], op_kind, "hang")
            path = core.write_replay(PROP, f"hang-pool-{core.digest(name)}", {"property": PROP, "op": name, "sig": list(sig), "violation": {"outcome": "hang", "detail": "no result within 20 s for a valid pool document"}})
            report.add(sig, path, f"{name}: no result within 20 s for a valid pool document")
    agg = {"sigs": Counter()}
    first_by_sig = {}
    suspects = []
    seeds = seeds_for(args.seed, ncases)
    # the quick tier runs one half of the value sweep first (which half follows the seed), the thorough tier all of it
    parts = 1 if tier["sweep"] else 2
    vs = value_sweep_cases(args.seed % parts, parts)
    sampled = [c15.gen_case(s) for s in seeds]
    # alternate blocks of sweep and sampled cases: when the budget ends early both kinds have had their share
    cases = []
    i = j = 0
    while i < len(vs) or j < len(sampled):
        cases.extend(vs[i : i + BATCH])
        i += BATCH
        cases.extend(sampled[j : j + 2 * BATCH])
        j += 2 * BATCH
    t_gen = time.time() - t0 - t_setup
    t1 = time.time()
    explore(cases, time.monotonic() + budget, report, agg, first_by_sig, suspects)
    t_explore = time.time() - t1
    sweep_info = None
    if tier["sweep"]:
        t2 = time.time()
        sw = sweep_cases()
        before = agg["summary"]["cases"] if agg.get("summary") else 0
        complete = explore(sw, time.monotonic() + budget, report, agg, first_by_sig, suspects)
        sweep_info = {"cases": len(sw), "executed": agg["summary"]["cases"] - before, "complete": complete, "wall_s": round(time.time() - t2, 1)}
    s = agg.get("summary") or {"cases": 0, "outcomes": {}, "by_fault": {}, "fired": {}, "nontrivial": set(), "dropped": set(), "skipped": 0, "steps": 0, "max_ratio": 0, "wf_rejects": 0, "native_rejected_malformed": 0}
    # ---- stalls: a case that stalled under load is a violation only if it stalls again alone with a 10x limit
    if suspects and os.environ.get("VERIF_DEBUG"):
        for c in suspects[:12]:
            print("[C15] stalled:", json.dumps(c)[:300], file=sys.stderr)
    solo = {i: (st, val) for i, st, val in core.run_batch(_single_task, suspects[:12], timeout=10 * c15_idle())} if suspects else {}
    for i, case in enumerate(suspects[:12]):
        status, out = solo.get(i, ("missing", None))
        err = None if status == "ok" else out
        out = out if status == "ok" else None
        for v in (out or {}).get("viol", []):
            # it did finish alone, with a verdict of its own (usually the step budget)
            first_by_sig.setdefault(tuple(v["sig"]), v)
            agg["sigs"][tuple(v["sig"])] += 1
        if status == "timeout":
            store = c15.Store.xml if case["decoder"].startswith("xml") else c15.Store.json
            sig = ("time", "noclass" if case.get("noclass") else str(store.get(case["doc"], (None, None))[1]), case["decoder"], "hang")
            first_by_sig.setdefault(sig, {"case": case, "out": {"outcome": "hang", "detail": "no result within %ds running alone" % (10 * c15_idle())}, "sig": list(sig)})
            agg["sigs"][sig] += 1
        elif out is None:
            report.harness_errors.append(f"stalled case could not be re-run: {status} {err}")
    # ---- triage
    unconfirmed_cpu = []
    # recorded findings first (they cost nothing), then up to 12 unlisted signatures are shrunk and confirmed
    ordered = sorted(first_by_sig.items(), key=lambda kv: (report.match_known(kv[0]) is None, kv[0]))
    n_listed = sum(1 for sig, _ in ordered if report.match_known(sig) is not None)
    for sig, v in ordered[: n_listed + 12]:
        if report.match_known(sig) is not None:
            # a recorded finding: nothing to shrink or to confirm again on every run
            report.add(sig, "-", summarize(v))
            continue
        if sig[-1] == "hang":
            # established by the run itself (a stalled case was already re-run alone); shrinking would re-run it many times
            path = core.write_replay(PROP, f"hang-{core.digest(v['case'])}", {"property": PROP, "case": v["case"], "sig": list(sig), "violation": v["out"]})
            report.add(sig, path, summarize(v))
            continue
        if sig[0] == "time" and sig[-1] == "slow":
            # CPU seconds are the one clock the simulation does not own (machine load, a paused VM): the verdict
            # counts only when the case is slow again alone in a pristine process, twice
            a, st_a, _ = run_solo(v["case"], timeout=10 * c15_idle())
            b, st_b, _ = run_solo(v["case"], timeout=10 * c15_idle()) if st_a == "timeout" or has_sig(a, sig) else (None, "skipped", None)
            if st_a == "timeout" and st_b == "timeout":
                hsig = tuple(sig[:-1]) + ("hang",)
                path = core.write_replay(PROP, f"hang-{core.digest(v['case'])}", {"property": PROP, "case": v["case"], "sig": list(hsig), "violation": v["out"]})
                report.add(hsig, path, summarize(v) + " [no result alone either]")
                continue
            if not ((st_a == "timeout" or has_sig(a, sig)) and (st_b == "timeout" or has_sig(b, sig))):
                unconfirmed_cpu.append({"case": v["case"], "cpu_in_batch": v["out"].get("cpu"), "cpu_alone": (a or {}).get("max_cpu")})
                print(f"[C15] note: {v['out'].get('cpu', 0):.2f}s of CPU in a batch was not repeated alone ({(a or {}).get('max_cpu')}s): not a verdict", file=sys.stderr, flush=True)
                continue
            if v["out"].get("cpu", 0) > 5:
                # confirmed, and too slow to shrink
                path = core.write_replay(PROP, f"slow-{core.digest(v['case'])}", {"property": PROP, "case": v["case"], "sig": list(sig), "violation": v["out"]})
                report.add(sig, path, summarize(v))
                continue
        small, trials = minimize(v["case"], sig)
        a, _, _ = run_solo(small)
        b, _, _ = run_solo(small)
        if not has_sig(a, sig) or not has_sig(b, sig):
            small = v["case"]
            a, _, _ = run_solo(small)
            if not has_sig(a, sig):
                report.harness_errors.append(f"violation {sig} did not reproduce alone in a pristine process: {json.dumps(v)[:500]}")
                continue
        vv = next(x for x in a["viol"] if same_sig(x["sig"], sig))
        path = core.write_replay(PROP, f"{small.get('seed', 0)}-{core.digest([small, list(sig)])}-min", {"property": PROP, "case": small, "sig": list(sig), "violation": vv["out"]})
        report.add(sig, path, summarize(vv) + f" [{trials} shrink trials]")
    for sig, v in ordered[n_listed + 12 :]:
        path = core.write_replay(PROP, f"{v['case'].get('seed', 0)}-{core.digest([v['case'], list(sig)])}-untriaged", {"property": PROP, "case": v["case"], "sig": list(sig), "violation": v["out"]})
        report.add(sig, path, summarize(v) + " [not minimised: more than 12 distinct signatures in this run]")
    wall = time.time() - t0
    if not args.no_evidence:
        samples = [c for c in cases[:400] if c["faults"]][:4]
        ev = {
            "property_id": PROP,
            "tier": args.tier,
            "seed": args.seed,
            "level": "fault_enumeration",
            "wall_s": round(wall, 2),
            "violations": len(report.unlisted),
            "coverage": {
                "evaluations": s["cases"],
                "distinct_nontrivial": len(s["nontrivial"]),
                "rule": "one evaluation = one decoder call (XmlParser with the lxml or the native handler, JsonParser, DictDecoder) on a stored valid pool document after an explicit "
                "sequence of 1-3 faults (storage: bit flip, overwrite, lost/duplicated/zeroed/garbage range, concatenation, random bytes, inserted markup; delivery: early EOF and a seeded "
                "short-read schedule; structural: element delete/duplicate/retag/reorder/move, value and attribute corruption, children in simple content, bad xsi:type/xsi:nil, undeclared prefix, "
                "wrong root, duplicate attribute, hostile prolog, size faults: an element duplicated 20-150 times, nested into itself 4-40 deep, long text, 10-200 extra attributes; JSON: key delete/rename/add, junk values, list wrap/unwrap/grow, nested values). distinct_nontrivial = distinct (decoder, document, config, fault list) "
                "whose faults changed the delivered input and whose outcome is not the fault-free one (an instance).",
                "samples": samples,
                "exhaustive": False,
                "truncation_and_bitflip_sweep": sweep_info,
                "cases_per_hour": int(s["cases"] / max(t_explore, 1e-6) * 3600) if not sweep_info else None,
                "outcomes": dict(sorted(s["outcomes"].items())),
                "faults_drawn": dict(sorted(s["by_fault"].items())),
                "faults_fired": dict(sorted(s["fired"].items())),
                "simulated_time": {"unit": "function entries + jumps in xsdata code (sys.monitoring)", "total": s["steps"]},
                "max_step_ratio_vs_valid_document": round(s["max_ratio"], 2),
                "max_cpu_seconds_single_case": round(s.get("max_cpu", 0.0), 3),
                "cpu_rule": "a case that uses more than 1 s of CPU and more than 300x the (size-scaled) CPU of its valid document is re-run alone and reported as 'slow' if it does so again",
                "step_budget": "20 x steps(valid document) x max(1, delivered size / valid size) + 20000",
                "not_wellformed_inputs": s["wf_rejects"],
                "native_handler_rejected_not_wellformed": s["native_rejected_malformed"],
                "documents": {"xml": len(c15.Store.xml), "json": len(c15.Store.json)},
                "dropped_no_faultfree_instance": sorted(s["dropped"]),
                "stalled_cases_rechecked": len(suspects),
                "cpu_outliers_not_repeated_alone": unconfirmed_cpu[:8],
                "violation_signatures": {"/".join(map(str, k)): v for k, v in agg["sigs"].items()},
                "components": {"real": ["XmlParser + LxmlEventHandler", "XmlParser + XmlEventHandler (native)", "JsonParser", "DictDecoder", "all parser nodes", "converter"], "stub": [], "harness": ["SimReader (io read contract, seeded chunk schedule)", "fault applicators (bytes, lxml tree, JSON value)", "expat well-formedness judge", "sys.monitoring step meter"]},
                "setup_s": round(t_setup, 2),
                "generate_s": round(t_gen, 2),
                "explore_s": round(t_explore, 2),
                "known_findings_printed": [k["what"] for k in report.known],
            },
            "assumptions": [
                "documented errors = xsdata.exceptions.ParserError, ConverterError, XmlContextError (XmlHandlerError accepted from handler code)",
                "a returned DerivedElement wrapping an instance of the requested class counts as an instance",
                "the lxml handler may recover from malformed input (recover=True is its documented behaviour); only the native handler must reject what expat rejects",
                "cases in one batch share a context (fresh parser per case); every reported violation is re-run alone in a pristine process",
            ],
        }
        if sweep_info:
            ev["coverage"]["exhaustive_subspace"] = "every truncation offset and one bit flip per byte position for every pool document x {lxml, native, json}" if sweep_info["complete"] else "sweep incomplete"
        core.write_evidence(PROP, ev)
    print(f"[C15] cases={s['cases']} nontrivial={len(s['nontrivial'])} skipped={s['skipped']} max_ratio={s['max_ratio']:.1f} explore={t_explore:.1f}s setup={t_setup:.1f}s gen={t_gen:.1f}s", flush=True)
    return report.finish()


def c15_idle():
    return int(IDLE)


def replay(args):
    core.reexec_pinned()
    with open(args.replay) as f:
        payload = json.load(f)
    core.bootstrap()
    c15.build_store()
    c15.runtime_codes()
    out, status, err = run_solo(payload["case"], timeout=300.0)
    sig = payload.get("sig")
    if status == "timeout":
        print(f"VIOLATION property={PROP} replay={args.replay}")
        print("  no result within 300s")
        return 1
    if out is None:
        print(f"HARNESS-ERROR: {status} {err}")
        return 2
    hit = [v for v in out["viol"] if sig is None or tuple(v["sig"]) == tuple(sig)]
    if hit:
        print(f"VIOLATION property={PROP} replay={args.replay}")
        print("  " + summarize(hit[0]))
        return 1
    print("replay did not reproduce the violation on this tree: outcomes " + json.dumps(out["outcomes"]))
    return 0


def digests(seed, runs):
    core.bootstrap()
    c15.build_store()
    c15.runtime_codes()
    seeds = seeds_for(seed, runs)
    cases = [c15.gen_case(s) for s in seeds]

    def task(case):
        s = _single_task(case)
        return core.digest([s["outcomes"], s["steps"], [v["sig"] for v in s["viol"]]])

    res = core.run_batch(task, cases, timeout=60.0)
    return {str(seeds[i]): (out if st == "ok" else st) for i, st, out in res}
