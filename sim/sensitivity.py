"""Sensitivity self-test: every seeded change under /verif/seeded must be caught by its property's check.

Each patch is applied to a scratch copy of /repo (never to /repo itself), the check runs with
VERIF_REPO pointing at the copy, and the copy is removed straight afterwards.
"""
import json
import os
import shutil
import subprocess
import sys
import tempfile
import time

from sim import core


def main(args):
    seeded = os.path.join(core.VERIF, "seeded")
    only = set(filter(None, (getattr(args, "only", "") or "").split(",")))
    base = os.environ.get("XDG_RUNTIME_DIR") or ("/dev/shm" if os.path.isdir("/dev/shm") else "/var/tmp")
    results = {}
    bad = 0
    for name in sorted(os.listdir(seeded)):
        d = os.path.join(seeded, name)
        meta_path = os.path.join(d, "meta.json")
        if not os.path.isfile(meta_path) or (only and name not in only):
            continue
        meta = json.load(open(meta_path))
        if meta.get("retired"):
            results[name] = {"property": meta["property"], "status": "retired", "detail": meta["retired"]}
            print(f"[sensitivity] {name}: retired")
            continue
        prop = meta["property"]
        scratch = tempfile.mkdtemp(prefix=f"xsdata-verif-{name}-", dir=base)
        t0 = time.time()
        try:
            subprocess.run(["rsync", "-a", "--exclude", ".git", "--exclude", "__pycache__", core.REPO.rstrip("/") + "/", scratch + "/"], check=True)
            ap = subprocess.run(["patch", "-p1", "-s", "-i", os.path.join(d, "patch.diff")], cwd=scratch, capture_output=True, text=True)
            if ap.returncode != 0:
                results[name] = {"property": prop, "status": "patch-does-not-apply", "detail": (ap.stdout + ap.stderr)[-400:]}
                bad += 1
                print(f"[sensitivity] {name}: patch does not apply to the current tree")
                continue
            env = dict(os.environ, VERIF_REPO=scratch)
            env.pop("VERIF_PINNED", None)
            extra = meta.get("check_args", ["--tier", "quick"])
            p = subprocess.run([sys.executable, os.path.join(core.VERIF, "check.py"), prop, "--no-evidence"] + extra, env=env, capture_output=True, text=True, timeout=3600)
            caught = p.returncode == 1 and "VIOLATION property=" + prop in p.stdout
            first = next((l for l in p.stdout.splitlines() if l.startswith("  ")), "")
            results[name] = {"property": prop, "status": "caught" if caught else "MISSED", "exit": p.returncode, "wall_s": round(time.time() - t0, 1), "first_violation": first.strip()[:300]}
            if not caught:
                bad += 1
            print(f"[sensitivity] {name} ({prop}): {'caught' if caught else 'MISSED'} in {time.time() - t0:.0f}s")
        finally:
            shutil.rmtree(scratch, ignore_errors=True)
    out = os.path.join(core.VERIF, "evidence", "selftest_sensitivity.json")
    os.makedirs(os.path.dirname(out), exist_ok=True)
    if only and os.path.exists(out):
        # a partial re-run refreshes its entries and keeps the others
        try:
            merged = json.load(open(out))
        except Exception:
            merged = {}
        merged.update(results)
        results = merged
    with open(out, "w") as f:
        json.dump(results, f, indent=1, sort_keys=True)
    return 2 if bad else 0
