"""Check driver for C12: code generation is reproducible (partial: template engine, click and ruff are stubs)."""
import concurrent.futures as cf
import difflib
import json
import os
import random
import shutil
import subprocess
import sys
import tempfile
import time
from collections import Counter

from sim import core
from sim.driver import Report

PROP = "C12"
TIERS = {"quick": {"pairs": 100, "envs": 7, "budget": 70.0}, "thorough": {"pairs": 1200, "envs": 12, "budget": 1500.0}}
SCRATCH = "/dev/shm" if os.path.isdir("/dev/shm") else tempfile.gettempdir()
E0 = {"route": "api", "heap": 0, "dir_seed": 0, "clock": "2001-02-03T04:05:06", "history": [], "cache": 0, "repeat": 1, "history_same_package": 0, "environ": None, "source_copy": None, "config_version": None, "config_text": None, "source_spelling": None, "optimize": 0, "init_roundtrip": 0, "mixed_parity": 0, "ruff_delay": 0, "edit_between": 0, "config_in_source": 0}
ROUTES = ["api", "api_file", "cli_flags", "cli_config", "cli_mixed"]


def sources():
    fx = os.path.join(core.REPO, "tests", "fixtures")
    cands = [
        ("primer", f"{fx}/primer/order.xsd", False, 1),
        ("books", f"{fx}/books/schema.xsd", False, 1),
        ("compound", f"{fx}/compound/schema.xsd", False, 1),
        ("wrapper", f"{fx}/wrapper/schema.xsd", False, 1),
        ("annotations", f"{fx}/annotations/model.xsd", False, 1),
        ("docstrings", f"{fx}/docstrings/schema.xsd", False, 1),
        ("dtd_complete", f"{fx}/dtd/complete_example.dtd", False, 1),
        ("hello_wsdl", f"{fx}/hello/hello.wsdl", False, 1),
        ("calculator_wsdl", f"{fx}/calculator/services.wsdl", False, 1),
        ("books_json", f"{fx}/books/books.json", False, 1),
        ("artists_xml", f"{fx}/artists", False, 1),
        ("series_json", f"{fx}/series", False, 1),
        ("own_schemas", os.path.join(core.REPO, "xsdata", "schemas"), False, 1),
        ("cycle", os.path.join(core.VERIF, "sim", "c12", "schemas", "cycle"), False, 4),
        ("mixed", os.path.join(core.VERIF, "sim", "c12", "schemas", "mixed"), False, 3),
        ("sink", os.path.join(core.VERIF, "sim", "c12", "schemas", "sink"), False, 4),
        ("sink_registry", os.path.join(core.VERIF, "sim", "c12", "schemas", "sink", "registry.xsd"), False, 2),
        ("xml_samples", os.path.join(core.VERIF, "sim", "c12", "samples", "xmldocs"), False, 2),
        ("json_samples", os.path.join(core.VERIF, "sim", "c12", "samples", "jsondocs"), False, 2),
        ("xmlimport", os.path.join(core.VERIF, "sim", "c12", "schemas", "xmlimport", "article.xsd"), False, 4),
        ("twins_v1", os.path.join(core.VERIF, "sim", "c12", "schemas", "twins", "v1"), False, 2),
        ("twins_v2", os.path.join(core.VERIF, "sim", "c12", "schemas", "twins", "v2"), False, 2),
        ("choices", os.path.join(core.VERIF, "sim", "c12", "schemas", "choices"), False, 4),
        ("samename", os.path.join(core.VERIF, "sim", "c12", "schemas", "samename"), False, 4),
        ("samename_ledger", os.path.join(core.VERIF, "sim", "c12", "schemas", "samename", "ledger.xsd"), False, 2),
        ("harness_all", os.path.join(core.VERIF, "sim", "c12", "schemas"), True, 3),
        ("features", os.path.join(core.VERIF, "sim", "c12", "schemas", "features"), False, 4),
        ("idclash", os.path.join(core.VERIF, "sim", "c12", "schemas", "idclash"), False, 4),
        ("casepair", os.path.join(core.VERIF, "sim", "c12", "schemas", "casepair"), False, 3),
        ("symlinked", os.path.join(core.VERIF, "sim", "c12", "schemas", "symlinked", "catalog"), False, 5),
        ("dtd_default_ns", f"{fx}/dtd/default_namespace.dtd", False, 1),
        ("dtd_prefix_ns", f"{fx}/dtd/prefix_namespace.dtd", False, 1),
        ("dtd_feed", os.path.join(core.VERIF, "sim", "c12", "dtd", "feed.dtd"), False, 2),
        ("dtd_notes", os.path.join(core.VERIF, "sim", "c12", "dtd", "notes.dtd"), False, 2),
        ("dtd_dir", os.path.join(core.VERIF, "sim", "c12", "dtd"), False, 2),
        ("wsdl_orders", os.path.join(core.VERIF, "sim", "c12", "wsdl", "orders.wsdl"), False, 3),
        ("twisted_json", os.path.join(core.VERIF, "sim", "c12", "samples", "twisted_json"), False, 2),
        ("twisted_xml", os.path.join(core.VERIF, "sim", "c12", "samples", "twisted_xml"), False, 2),
    ]
    for k in range(1, 9):
        cands.append((f"gen{k}", os.path.join(core.VERIF, "sim", "c12", "schemas", f"gen{k}"), False, 1))
    return [c for c in cands if os.path.exists(c[1])]


W3_IMPORTERS = ("xmlimport", "features", "own_schemas")
LOCATION_SENSITIVE = ("symlinked", "twins_v1", "twins_v2")


def gen_params(rng):
    p = {"package": "gen" if rng.random() < 0.85 else rng.choice(["gen.pkg", "gen.pkg.sub", "_gen", "Gen.Models"])}
    p["structure_style"] = rng.choice(["filenames", "namespaces", "clusters", "clusters", "single-package", "namespace-clusters"])
    if rng.random() < 0.5:
        p["docstring_style"] = rng.choice(["reStructuredText", "NumPy", "Google", "Accessible", "Blank"])
    for key, prob in (
        ("compound_fields__enabled", 0.5), ("wrapper_fields", 0.3), ("unnest_classes", 0.3), ("relative_imports", 0.3),
        ("generic_collections", 0.2), ("ignore_patterns", 0.2), ("format__frozen", 0.2), ("format__slots", 0.2),
        ("format__order", 0.15), ("format__eq", 0.15), ("format__repr", 0.1), ("format__unsafe_hash", 0.1), ("include_header", 0.25),
    ):
        if rng.random() < prob:
            p[key] = rng.random() < 0.8 if key not in ("format__eq", "format__repr") else rng.random() < 0.5
    if rng.random() < 0.3:
        p["max_line_length"] = rng.choice([60, 79, 100, 120])
    if rng.random() < 0.3:
        # settings without a command line flag: they travel through the API or the configuration file
        adv = {}
        if rng.random() < 0.6:
            adv["conventions.class_name.case"] = rng.choice(["pascalCase", "mixedSnakeCase", "mixedPascalCase", "originalCase"])
        if rng.random() < 0.4:
            adv["conventions.field_name.case"] = rng.choice(["snakeCase", "camelCase", "mixedCase"])
        if rng.random() < 0.3:
            adv["conventions.class_name.safe_prefix"] = rng.choice(["cls", "type", "T"])
        if rng.random() < 0.3:
            adv["conventions.module_name.case"] = rng.choice(["snakeCase", "pascalCase"])
        if rng.random() < 0.35:
            adv["extensions"] = rng.sample([["class", ".*", "verifext.Item", False], ["class", "^[A-M].*", "verifext.Status", True], ["decorator", ".*Type$", "verifext.marker", False],
                                            ["class", ".*", "verifext.Base", False], ["class", "^P.*", "verifext.Party", False]], rng.choice([1, 2]))
        if rng.random() < 0.4:
            adv["substitutions"] = rng.sample([["class", "(.*)Type$", "\\1Kind"], ["field", "^name$", "title"], ["class", "^Item$", "Entry"], ["package", "urn:cyc:a", "alpha_ns"], ["module", "^b$", "bee"], ["class", "Stra\u00dfe", "Strasse"], ["field", "pr\u00e9nom", "first_name"]], rng.choice([1, 2]))
        if rng.random() < 0.35:
            # the attributes of <CompoundFields>: no flag of their own, they sit next to a value that has one
            adv["output.compound_fields.default_name"] = rng.choice(["choice", "content", "items"])
            adv["output.compound_fields.force_default_name"] = rng.random() < 0.4
            adv["output.compound_fields.max_name_parts"] = rng.choice([1, 2, 3, 5])
            adv["output.compound_fields.use_substitution_groups"] = rng.random() < 0.4
            p["compound_fields__enabled"] = True
        if adv:
            p["adv"] = adv
    if rng.random() < 0.12:
        p["create"] = True  # start from GeneratorConfig.create() / `xsdata init-config` (stock substitutions)
    return p


def gen_env(rng, srcs):
    env = dict(E0)
    env["hashseed"] = rng.randrange(1, 1 << 31)
    env["route"] = rng.choice(ROUTES)
    env["_needs_file_route"] = True
    if rng.random() < 0.6:
        env["heap"] = rng.randrange(1, 1 << 30)
    if rng.random() < 0.5:
        env["dir_seed"] = rng.randrange(1, 1 << 30)
    if rng.random() < 0.35:
        hist = []
        for _ in range(rng.choice([1, 2])):
            name, path, rec, _ = rng.choice(srcs)
            hp = gen_params(rng)
            hist.append({"source": "@same" if rng.random() < 0.5 else path, "recursive": rec, "params": hp, "route": "api" if "adv" in hp else rng.choice(["api", "cli_flags"])})
        env["history"] = hist
    if rng.random() < 0.2:
        env["cache"] = 1
        env["repeat"] = rng.choice([1, 2])
    elif rng.random() < 0.15:
        env["repeat"] = 2
    if rng.random() < 0.3:
        env["environ"] = {
            "COLUMNS": rng.choice(["40", "80", "200"]),
            "LC_ALL": rng.choice(["C", "C.UTF-8", "POSIX"]),
            "TZ": rng.choice(["UTC", "Pacific/Kiritimati", "America/Anchorage", "Asia/Kathmandu"]),
            "USER": rng.choice(["verif", "someone-else"]),
            "HOME": rng.choice(["/nonexistent", "/tmp"]),
            "XSDATA_ANYTHING": rng.choice(["0", "1"]),
        }
    if rng.random() < 0.2:
        env["source_copy"] = rng.choice(["mirror/www.w3.org/schemas", "checkout/src", "a b/ü-dir", "x.xsd/json", "deep/" * 6 + "d", ".cache/checkout/src", "work/.hidden/v1.0~", "#tmp#/src"])
    if rng.random() < 0.3:
        # the version stamp of a project file written by another release; it is not an option
        env["config_version"] = rng.choice(["24.1", "23.8", "99.1", "", "unknown"])
    if rng.random() < 0.25:
        env["config_text"] = sorted(rng.sample(["bool10", "comment", "nodecl", "crlf", "bom"], rng.choice([1, 1, 2, 3])))
    if rng.random() < 0.25:
        env["source_spelling"] = rng.choice(["rel", "dot", "slash", "dotdot", "uri", "uri1"])
    if rng.random() < 0.2:
        env["init_roundtrip"] = 1  # the project file is refreshed with `xsdata init-config <file>` before it is used
    if rng.random() < 0.5:
        env["mixed_parity"] = 1
    if rng.random() < 0.12:
        # an earlier generation in this interpreter read the same files with other content (edited in place since)
        env["edit_between"] = 1
        env["cache"] = 0
        env["repeat"] = 1
        if not env.get("source_copy"):
            env["source_copy"] = "checkout/src"
    if rng.random() < 0.04:
        env["ruff_delay"] = 12  # the formatter takes its time this once (cold cache, loaded machine)
    if rng.random() < 0.12:
        env["config_in_source"] = 1  # the project file lives in the source directory
        if not env.get("source_copy"):
            env["source_copy"] = "checkout/src"
    if rng.random() < 0.1:
        env["optimize"] = rng.choice([1, 2])  # python -O / -OO
    if rng.random() < 0.12:
        # a locale whose preferred encoding is ASCII: whatever is read or written without an explicit encoding differs
        env["environ"] = dict(env.get("environ") or {}, LC_ALL="C", PYTHONUTF8="0", PYTHONCOERCECLOCALE="0")
        if env.get("source_copy"):
            env["source_copy"] = "checkout/src"
    if env.get("history") and rng.random() < 0.3:
        env["history_same_package"] = 1  # an earlier generation into the same package name from another directory
    return env


def run_child(source, recursive, params, env, timeout=600.0):
    work = tempfile.mkdtemp(prefix="xsv-c12-", dir=SCRATCH)
    env = dict(env)
    env.pop("_needs_file_route", None)
    if "adv" in params and env.get("route") == "cli_flags":
        env["route"] = "cli_config"  # settings without a flag must travel in the configuration file
    if env.get("history"):
        twin = None
        if "/twins/v1" in source:
            twin = source.replace("/twins/v1", "/twins/v2")
        elif "/twins/v2" in source:
            twin = source.replace("/twins/v2", "/twins/v1")
        hist = []
        for h in env["history"]:
            if h["source"] == "@same":
                h = dict(h, source=twin or source, recursive=recursive)
            hist.append(h)
        env["history"] = hist
    try:
        spec = {"repo": core.REPO, "verif": core.VERIF, "source": source, "recursive": recursive, "params": params, "env": env, "workdir": work}
        penv = {k: v for k, v in os.environ.items() if not k.startswith("VERIF_PINNED")}
        penv["PYTHONHASHSEED"] = str(env.get("hashseed", 0))
        for key in ("COLUMNS", "LINES", "LC_ALL", "LANG", "TZ", "USER", "LOGNAME", "HOME", "TERM", "NO_COLOR"):
            penv.pop(key, None)
        penv.update({"LC_ALL": "C.UTF-8", "TZ": "UTC", "COLUMNS": "80", "USER": "verif", "HOME": "/nonexistent"})
        penv.update(env.get("environ") or {})
        penv["PYTHONDONTWRITEBYTECODE"] = "1"
        penv["VERIF_RUFF_DELAY"] = str(env.get("ruff_delay") or 0)
        cmd = [sys.executable] + (["-O" * 1 if env.get("optimize") == 1 else "-OO"] if env.get("optimize") else []) + [os.path.join(core.VERIF, "sim", "c12_child.py")]
        setarch = shutil.which("setarch")
        if setarch:
            cmd = [setarch, os.uname().machine, "-R"] + cmd
        try:
            p = subprocess.run(cmd, input=json.dumps(spec), capture_output=True, text=True, env=penv, timeout=timeout, cwd=work)
        except subprocess.TimeoutExpired:
            return {"harness": "timeout"}
        lines = [l for l in p.stdout.splitlines() if l.startswith("RESULT ")]
        if not lines:
            return {"harness": f"child failed rc={p.returncode}: {p.stderr[-1500:]}"}
        return json.loads(lines[-1][7:])
    finally:
        shutil.rmtree(work, ignore_errors=True)


def output_key(res):
    return core.digest([sorted(res["files"].items()), res["exc"]])


def compare(ref, res, params, env):
    """None if equal (up to the documented timestamp line), else a description."""
    if res["exc"] != ref["exc"]:
        return {"kind": "exception", "ref": ref["exc"], "got": res["exc"]}
    if sorted(res["files"]) != sorted(ref["files"]):
        return {"kind": "file_set", "only_ref": sorted(set(ref["files"]) - set(res["files"]))[:5], "only_got": sorted(set(res["files"]) - set(ref["files"]))[:5]}
    same_clock = env.get("clock") == E0["clock"]
    for name in sorted(ref["files"]):
        a, b = ref["files"][name], res["files"][name]
        if a == b:
            continue
        if params.get("include_header") and not same_clock:
            la, lb = a.splitlines(), b.splitlines()
            diff = [i for i, (x, y) in enumerate(zip(la, lb)) if x != y]
            if len(la) == len(lb) and diff == [0] and "generated by xsdata" in la[0]:
                continue
        d = list(difflib.unified_diff(a.splitlines(), b.splitlines(), "reference", "this-run", lineterm="", n=1))[:14]
        return {"kind": "content", "file": name, "diff": d}
    return None


def source_kind(path):
    if os.path.isdir(path):
        exts = sorted({os.path.splitext(n)[1].lstrip(".") for n in os.listdir(path) if "." in n} & {"xsd", "wsdl", "dtd", "xml", "json"})
        return "+".join(exts) or "dir"
    return os.path.splitext(path)[1].lstrip(".")


def signature(v, path):
    d = v["diff"]
    env = v["env"]
    if d["kind"] == "exception":
        got = (d["got"] or "none").split(":")[0]
        return ("differs", "exception", got, "cache" if env.get("cache") else "nocache", source_kind(path))
    if d["kind"] == "content":
        return ("differs", "content", d.get("file", "-").split("/")[-1])
    return ("differs", d["kind"])


def minimize_env(source, recursive, params, env, ref, sigkind):
    """Reset environment components to E0 one at a time while the difference persists."""
    best = dict(env)
    trials = 0
    for key in ("source_copy", "environ", "history_same_package", "history", "cache", "repeat", "dir_seed", "heap", "init_roundtrip", "config_text", "config_version", "source_spelling", "optimize", "mixed_parity", "ruff_delay", "edit_between", "config_in_source", "route", "clock", "hashseed"):
        default = E0.get(key, 0)
        if best.get(key, default) == default:
            continue
        cand = dict(best)
        cand[key] = default
        if key == "cache":
            cand["repeat"] = 1
        trials += 1
        res = run_child(source, recursive, params, cand)
        if "harness" not in res:
            d = compare(ref, res, params, cand)
            if d is not None and d["kind"] == sigkind:
                best = cand
    return best, trials


def check(args):
    t0 = time.time()
    tier = TIERS[args.tier]
    npairs = args.runs or tier["pairs"]
    budget = args.budget or tier["budget"]
    nenv = tier["envs"]
    core.setup_path()
    rng = random.Random(args.seed)
    srcs = sources()
    weights = [s[3] for s in srcs]
    pairs = []
    for i in range(npairs):
        s = rng.choices(srcs, weights)[0]
        params = gen_params(rng)
        if s[0] == "idclash" and rng.random() < 0.8:
            params["compound_fields__enabled"] = True  # sibling choices of two files end up in one class
        if s[0] in LOCATION_SENSITIVE and rng.random() < 0.7:
            params["structure_style"] = "filenames"  # the only style in which a file's location names its module
        pairs.append((s, params))
    report = Report(PROP)
    agg = {"runs": 0, "envs": set(), "pairs_done": 0, "probe_changed": Counter(), "probe_runs": 0, "routes": Counter(), "perturb": Counter(), "exceptions": Counter(), "nontrivial": set(), "history_runs": 0}
    viols = {}
    deadline = time.monotonic() + budget
    samples = []

    def do_pair(idx):
        (name, path, rec, _), params = pairs[idx]
        prng = random.Random(f"{args.seed}/{idx}")
        if time.monotonic() > deadline:
            return None
        ref = run_child(path, rec, params, dict(E0, hashseed=0))
        if "harness" in ref:
            return {"harness": f"reference {name}: {ref['harness']}"}
        out = {"name": name, "params": params, "runs": 1, "viol": [], "envs": [], "probe_changed": Counter(), "ref_exc": ref["exc"], "nfiles": len(ref["files"])}
        # a second reference under E0 guards against a harness that is itself not repeatable
        for j in range(nenv):
            if time.monotonic() > deadline:
                break
            env = gen_env(prng, srcs) if (j or idx % 3) else dict(E0, hashseed=0)  # an exact repeat for every third pair
            if j == 3 and name in W3_IMPORTERS:
                # sources that import a W3C namespace by its well-known location, copied below a mirror-like path
                env = dict(E0, hashseed=0, source_copy="mirror/www.w3.org/schemas", route=prng.choice(ROUTES))
            if j == 4 and name.startswith("dtd"):
                # an earlier generation from ANOTHER document type definition in the same interpreter
                others = [s_ for s_ in srcs if s_[0].startswith("dtd") and s_[0] != name and not os.path.isdir(s_[1])]
                if others:
                    o = prng.choice(others)
                    env = dict(E0, hashseed=0, history=[{"source": o[1], "recursive": False, "params": {"package": "gen", "structure_style": "filenames"}, "route": "api"}])
            if j == 1:
                env = dict(E0, hashseed=prng.randrange(1, 1 << 31))  # hash seed alone
            if j == 2 and params.get("include_header"):
                env = dict(E0, hashseed=0, clock="2031-12-31T23:59:59")
            res = run_child(path, rec, params, env)
            out["runs"] += 1
            if "harness" in res:
                out.setdefault("harness_list", []).append(f"{name}: {res['harness']}")
                continue
            d = compare(ref, res, params, env)
            changed = [k for k in ref["probes"] if res["probes"].get(k) != ref["probes"][k]]
            for k in changed:
                out["probe_changed"][k] += 1
            out["envs"].append({"env": env, "equal": d is None, "probes_changed": changed})
            if d is not None:
                out["viol"].append({"env": env, "diff": d})
        return out

    with cf.ThreadPoolExecutor(max_workers=int(os.environ.get("VERIF_WORKERS", "0")) or min(16, os.cpu_count() or 1)) as ex:
        for idx, out in zip(range(len(pairs)), ex.map(do_pair, range(len(pairs)))):
            if out is None:
                continue
            if "harness" in out:
                report.harness_errors.append(out["harness"])
                continue
            for h in out.get("harness_list", []):
                report.harness_errors.append(h)
            agg["pairs_done"] += 1
            agg["runs"] += out["runs"]
            agg["exceptions"][str(out["ref_exc"])[:60]] += 1
            agg["probe_changed"].update(out["probe_changed"])
            for e in out["envs"]:
                env = e["env"]
                agg["envs"].add(core.digest(env))
                agg["routes"][env["route"]] += 1
                for k in ("heap", "dir_seed", "cache"):
                    if env.get(k):
                        agg["perturb"][k] += 1
                if env.get("history"):
                    agg["perturb"]["history"] += 1
                if env.get("repeat", 1) > 1:
                    agg["perturb"]["repeat"] += 1
                if env.get("hashseed"):
                    agg["perturb"]["hashseed"] += 1
                if e["probes_changed"] and e["equal"]:
                    agg["nontrivial"].add(core.digest([out["name"], out["params"], env]))
            if len(samples) < 3 and out["envs"]:
                samples.append({"source": out["name"], "params": out["params"], "environment": out["envs"][-1]["env"], "files": out["nfiles"], "exception": out["ref_exc"]})
            for v in out["viol"]:
                sig = signature(v, pairs[idx][0][1])
                viols.setdefault(sig, (idx, v))
    t_explore = time.time() - t0
    # ---- triage
    for sig, (idx, v) in sorted(viols.items())[:6]:
        (name, path, rec, _), params = pairs[idx]
        ref = run_child(path, rec, params, dict(E0, hashseed=0))
        small, trials = minimize_env(path, rec, params, v["env"], ref, v["diff"]["kind"])
        res = run_child(path, rec, params, small)
        d = compare(ref, res, params, small) if "harness" not in res else None
        if d is None:
            small, d = v["env"], v["diff"]
        changed = [k for k in E0 if small.get(k, E0[k]) != E0[k]] + (["hashseed"] if small.get("hashseed") else [])
        if d["kind"] == "exception" and "history_same_package" in changed and not small.get("cache"):
            # refine the signature: which exception flips, under an earlier generation into the same package name
            def etype(x):
                return (x or "none").split(":")[0]

            circ = "circular" if "Circular Dependencies" in ((d["got"] or "") + (d["ref"] or "")) else "other"
            sig = ("differs", "exception", etype(d["got"]), etype(d["ref"]), "same-package-history", circ)
        elif d["kind"] == "exception":
            sig = signature({"diff": d, "env": small}, path)
        payload = {"property": PROP, "source": {"name": name, "path": path, "recursive": rec}, "params": params, "env": small, "sig": list(sig), "violation": d, "environment_components_needed": changed}
        path_r = core.write_replay(PROP, f"{name}-{core.digest([params, small])}", payload)
        first = d.get("diff", [])[:6] if d["kind"] == "content" else d
        report.add(sig, path_r, f"{name} with {json.dumps(params)}: output differs from the reference run ({d['kind']}) when only {changed or 'nothing'} changes; {json.dumps(first)[:400]} [{trials} env-reset trials]")
    wall = time.time() - t0
    if not args.no_evidence:
        ev = {
            "property_id": PROP,
            "tier": args.tier,
            "seed": args.seed,
            "level": "exploration",
            "wall_s": round(wall, 2),
            "violations": len(report.unlisted),
            "coverage": {
                "evaluations": agg["runs"],
                "distinct_nontrivial": len(agg["nontrivial"]),
                "rule": "one evaluation = one code generation in a fresh interpreter under a simulated environment (hash seed, seeded heap scramble that changes relative object addresses, "
                "permuted directory enumeration, fixed clock, 0-2 earlier generations in the same interpreter, repeated run, --cache, invocation route: API / config written and read back / CLI flags / "
                "CLI + config file / mixed). Its output map {relative path: text} and write order must equal the reference run of the same (sources, configuration) under the neutral environment. "
                "distinct_nontrivial = distinct (sources, configuration, environment) whose intermediate iteration orders (SCC vertex order, component order, native-type set order) differed from the "
                "reference run while the output stayed identical, i.e. the perturbation demonstrably reached order-sensitive code.",
                "samples": samples or [{"note": "no sample"}],
                "runs_per_hour": int(agg["runs"] / max(t_explore, 1e-6) * 3600),
                "source_config_pairs": agg["pairs_done"],
                "distinct_environments": len(agg["envs"]),
                "routes": dict(agg["routes"]),
                "perturbations_applied": dict(agg["perturb"]),
                "intermediate_order_changed": dict(agg["probe_changed"]),
                "reference_outcomes": dict(agg["exceptions"]),
                "source_sets": [s[0] for s in srcs],
                "components": {
                    "real": ["ResourceTransformer", "SchemaParser/DefinitionsParser/DtdParser", "all mappers", "ClassContainer + all handlers", "validator", "DependenciesResolver", "DataclassGenerator incl. the real .jinja2 templates", "Filters", "CodeWriter", "GeneratorConfig.read/write/create", "xsdata.cli generate + xsdata.utils.click.model_options", "validate_imports (the generated package is imported)"],
                    "stub": ["jinja2 -> /verif/stubs/jinja2 (own interpreter of the template language, executes the repository's templates; AST-equal to the committed fixture for primer/order.xsd)", "click -> /verif/stubs/click (own option parser driven by the real option declarations)", "toposort -> /verif/stubs/toposort (re-implementation)", "ruff -> /verif/stubs/bin/ruff (stand-in: `format` strips trailing white space, caps blank lines, can be slow on request; `check` does nothing)"],
                },
                "known_findings_printed": [k["what"] for k in report.known],
            },
            "assumptions": [
                "reproducibility is judged on the files xsdata writes before ruff reformats them; nondeterminism inside ruff, click's own parsing or jinja2's engine is out of reach",
                "address-order effects are explored for heap objects only (ASLR is off and static type addresses do not move)",
            ],
        }
        core.write_evidence(PROP, ev)
    print(f"[C12] pairs={agg['pairs_done']} runs={agg['runs']} nontrivial={len(agg['nontrivial'])} probe_changed={dict(agg['probe_changed'])} explore={t_explore:.1f}s", flush=True)
    return report.finish()


def replay(args):
    core.setup_path()
    with open(args.replay) as f:
        payload = json.load(f)
    src = payload["source"]
    ref = run_child(src["path"], src["recursive"], payload["params"], dict(E0, hashseed=0))
    res = run_child(src["path"], src["recursive"], payload["params"], payload["env"])
    if "harness" in ref or "harness" in res:
        print(f"HARNESS-ERROR: {ref.get('harness')} {res.get('harness')}")
        return 2
    d = compare(ref, res, payload["params"], payload["env"])
    if d is not None:
        print(f"VIOLATION property={PROP} replay={args.replay}")
        print("  " + json.dumps(d)[:1500])
        return 1
    print("replay did not reproduce the violation on this tree")
    return 0


def digests(seed, runs):
    core.setup_path()
    rng = random.Random(seed)
    srcs = sources()
    out = {}
    items = []
    for i in range(min(runs, 24)):
        s = rng.choice(srcs)
        items.append((i, s, gen_params(rng), gen_env(rng, srcs)))

    def one(item):
        i, s, params, env = item
        res = run_child(s[1], s[2], params, env)
        return str(seed * 1000000 + i), ("harness" if "harness" in res else core.digest([sorted(res["files"].items()), res["exc"], res["written"], res["probes"]]))

    with cf.ThreadPoolExecutor(max_workers=8) as ex:
        for k, v in ex.map(one, items):
            out[k] = v
    return out
