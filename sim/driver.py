"""Command-line driver shared by all checks."""
import argparse
import json
import os
import sys
import time

from sim import core


def parse_args(argv):
    ap = argparse.ArgumentParser(prog="check")
    ap.add_argument("prop")
    ap.add_argument("sub", nargs="?")
    ap.add_argument("--tier", default=os.environ.get("VERIF_TIER", "quick"), choices=["quick", "thorough"])
    ap.add_argument("--seed", type=int, default=int(os.environ.get("VERIF_SEED", "0") or 0))
    ap.add_argument("--runs", type=int, default=None)
    ap.add_argument("--budget", type=float, default=None, help="wall seconds for the exploration phase")
    ap.add_argument("--replay", default=None)
    ap.add_argument("--no-evidence", action="store_true")
    ap.add_argument("--keep-going", action="store_true")
    return ap.parse_args(argv)


def seeds_for(base, n):
    return [base * 1_000_000 + i for i in range(n)]


class Report:
    """Collects violations, matches them against the committed known-findings list, prints the contract lines."""

    def __init__(self, prop):
        self.prop = prop
        self.known = [k for k in core.load_known_findings() if k.get("property") == prop and k.get("status") == "known"]
        self.known_hit = {}
        self.unlisted = []  # (sig, replay path, summary)
        self.harness_errors = []

    def match_known(self, sig):
        for k in self.known:
            key = k.get("key", {}).get("sig")
            if key is not None and list(sig[: len(key)]) == list(key):
                return k
        return None

    def add(self, sig, replay_path, summary):
        k = self.match_known(sig)
        if k is not None:
            self.known_hit.setdefault(json.dumps(k["key"], sort_keys=True), (k, replay_path))
        else:
            self.unlisted.append((sig, replay_path, summary))

    def finish(self):
        for k in self.known:
            print(f"KNOWN-FINDING: property={self.prop} {k['what']}")
        for sig, path, summary in self.unlisted:
            print(f"VIOLATION property={self.prop} replay={path}")
            print(f"  {summary}")
        for e in self.harness_errors[:10]:
            print(f"HARNESS-ERROR: {e}", file=sys.stderr)
        sys.stdout.flush()
        if self.unlisted:
            return 1
        if self.harness_errors:
            return 2
        return 0


def main(argv=None):
    raw = argv if argv is not None else sys.argv[1:]
    if raw and raw[0] == "selftest":
        from sim import selftest

        return selftest.check(None)
    args = parse_args(raw)
    prop = args.prop
    t0 = time.time()
    try:
        if prop == "C19":
            from sim import c19_check as mod
        elif prop == "C14":
            from sim import c14_check as mod
        elif prop == "C15":
            from sim import c15_check as mod
        elif prop == "C12":
            from sim import c12_check as mod
        elif prop == "selftest":
            from sim import selftest as mod
        else:
            print(f"unknown property {prop}", file=sys.stderr)
            return 2
        if args.replay:
            return mod.replay(args)
        return mod.check(args)
    except core.HarnessError as e:
        print(f"HARNESS-ERROR: {e}", file=sys.stderr)
        return 2
    finally:
        print(f"[{prop}] wall {time.time() - t0:.1f}s", file=sys.stderr)
