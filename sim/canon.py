"""Canonical, address-free representation of anything a simulated call can return or raise."""
import dataclasses
import enum
import sys
import re
from decimal import Decimal
from xml.etree.ElementTree import QName

_ADDR = re.compile(r"0x[0-9a-fA-F]+")

try:  # lxml trees are returned by TreeSerializer
    from lxml import etree as _letree
except Exception:  # pragma: no cover
    _letree = None


def _named(tp):
    """Module and qualified name of a class; marked when the name leads to ANOTHER class object than the one at hand
    (the twin `@dataclass(slots=True)` leaves behind, a redefinition): the instance prints like the real thing but is not."""
    name = f"{tp.__module__}.{tp.__qualname__}"
    if "<locals>" in tp.__qualname__:
        return name
    target = sys.modules.get(tp.__module__)
    for part in tp.__qualname__.split("."):
        target = getattr(target, part, None)
        if target is None:
            return name
    return name if target is tp else f"<another class named {name}>"


def canon(obj, _depth=0):
    if _depth > 60:
        return "<too deep>"
    if obj is None or obj is True or obj is False:
        return repr(obj)
    tp = type(obj)
    if tp in (int, str, bytes, float):
        return repr(obj)
    if tp is Decimal:
        return f"Decimal({str(obj)!r})"
    if isinstance(obj, QName):
        return f"QName({obj.text!r})"
    if isinstance(obj, enum.Enum):
        return f"{tp.__qualname__}.{obj.name}"
    if dataclasses.is_dataclass(obj) and not isinstance(obj, type):
        parts = []
        for f in dataclasses.fields(obj):
            try:
                v = getattr(obj, f.name)
            except AttributeError:
                parts.append(f"{f.name}=<unset>")
                continue
            parts.append(f"{f.name}={canon(v, _depth + 1)}")
        return f"{_named(tp)}({', '.join(parts)})"
    if tp is list:
        return "[" + ", ".join(canon(v, _depth + 1) for v in obj) + "]"
    if tp is tuple:
        return "(" + ", ".join(canon(v, _depth + 1) for v in obj) + ",)"
    if tp is dict:
        return "{" + ", ".join(f"{canon(k, _depth + 1)}: {canon(v, _depth + 1)}" for k, v in obj.items()) + "}"
    if tp in (set, frozenset):
        return tp.__name__ + "{" + ", ".join(sorted(canon(v, _depth + 1) for v in obj)) + "}"
    if isinstance(obj, type):
        return f"<class {obj.__module__}.{obj.__qualname__}>"
    if _letree is not None and isinstance(obj, (_letree._Element, _letree._ElementTree)):
        return "lxml:" + _letree.tostring(obj).decode("utf-8", "replace")
    return _ADDR.sub("0x?", repr(obj))


def canon_exc(e):
    tp = type(e)
    return f"{tp.__module__}.{tp.__qualname__}", _ADDR.sub("0x?", str(e))
