"""Simulated byte source and text sink.

The reader keeps the `io` read contract: only a *sized* read may be short;
`read()` / `read(-1)` returns everything up to (possibly early) EOF.
"""
import errno
import io


class InjectedInterrupt(KeyboardInterrupt):
    """Cancellation delivered from a reader, writer or callback."""


class SimReader:
    def __init__(self, data, chunks=None, eof_at=None, raise_at=None, raise_kind="oserror", stats=None):
        self.data = data if eof_at is None else data[: max(0, eof_at)]
        self.full_len = len(data)
        self.pos = 0
        self.calls = 0
        self.chunks = list(chunks) if chunks else None
        self.ci = 0
        self.raise_at = raise_at
        self.raise_kind = raise_kind
        self.fired = False
        self.stats = stats

    def read(self, n=-1):
        self.calls += 1
        if self.raise_at is not None and self.calls == self.raise_at:
            self.fired = True
            if self.raise_kind == "interrupt":
                raise InjectedInterrupt("injected cancellation in read #%d" % self.calls)
            raise OSError(errno.EIO, "injected read error in read #%d" % self.calls)
        if n is None or n < 0:
            out = self.data[self.pos :]
            self.pos = len(self.data)
            return out
        size = n
        if self.chunks:
            size = max(1, min(n, self.chunks[self.ci % len(self.chunks)]))
            self.ci += 1
        out = self.data[self.pos : self.pos + size]
        self.pos += len(out)
        return out

    def close(self):
        pass


class SimWriter(io.TextIOBase):
    def __init__(self, raise_at=None, raise_kind="enospc"):
        super().__init__()
        self.parts = []
        self.calls = 0
        self.raise_at = raise_at
        self.raise_kind = raise_kind
        self.fired = False

    def writable(self):
        return True

    def write(self, s):
        self.calls += 1
        if self.raise_at is not None and self.calls == self.raise_at:
            self.fired = True
            if self.raise_kind == "interrupt":
                raise InjectedInterrupt("injected cancellation in write #%d" % self.calls)
            raise OSError(errno.ENOSPC, "injected: no space left on device in write #%d" % self.calls)
        self.parts.append(s)
        return len(s)

    def getvalue(self):
        return "".join(self.parts)
