"""Pool: late module 3 - importing it registers a converter for a type that binding models of an early
module already use (applications register their converters in whatever module gets imported first)."""
from xsdata.formats.converter import Converter, converter

from sim.pool.m_edge import LooseEnum, Sku


class SkuConverter(Converter):
    def deserialize(self, value, **kwargs):
        if not isinstance(value, str) or "-" not in value:
            from xsdata.exceptions import ConverterError

            raise ConverterError(f"not a sku: {value!r}")
        return Sku(value)

    def serialize(self, value, **kwargs):
        return value.code


converter.register_converter(Sku, SkuConverter())


class LooseEnumConverter(Converter):
    """Registered for the BASE class: enumerations deriving from it are found through the mro."""

    def deserialize(self, value, **kwargs):
        data_type = kwargs.get("data_type")
        for member in data_type or ():
            if str(member.value).lower() == str(value).strip().lower():
                return member
        from xsdata.exceptions import ConverterError

        raise ConverterError(f"no member like {value!r}")

    def serialize(self, value, **kwargs):
        return str(value.value).upper()


converter.register_converter(LooseEnum, LooseEnumConverter())
