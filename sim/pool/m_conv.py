"""Pool: late module 3 - importing it registers a converter for a type that binding models of an early
module already use (applications register their converters in whatever module gets imported first)."""
from xsdata.formats.converter import Converter, converter

from sim.pool.m_edge import Sku


class SkuConverter(Converter):
    def deserialize(self, value, **kwargs):
        if not isinstance(value, str) or "-" not in value:
            from xsdata.exceptions import ConverterError

            raise ConverterError(f"not a sku: {value!r}")
        return Sku(value)

    def serialize(self, value, **kwargs):
        return value.code


converter.register_converter(Sku, SkuConverter())
