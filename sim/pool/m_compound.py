"""Pool: compound fields, unions, sequences, wrappers, forward references."""
from dataclasses import dataclass, field

from sim.pool.base import StableHashMeta
from decimal import Decimal
from typing import Optional, Union

__NAMESPACE__ = "urn:c"


@dataclass
class Alpha(metaclass=StableHashMeta):
    class Meta:
        name = "alpha"
        namespace = "urn:c"

    a: Optional[int] = field(default=None, metadata={"type": "Attribute"})
    text: str = field(default="", metadata={"type": "Element"})


@dataclass
class Bravo(metaclass=StableHashMeta):
    class Meta:
        name = "bravo"
        namespace = "urn:c"

    b: Optional[str] = field(default=None, metadata={"type": "Attribute"})
    num: Optional[int] = field(default=None, metadata={"type": "Element"})


@dataclass
class Choice(metaclass=StableHashMeta):
    class Meta:
        name = "choice"
        namespace = "urn:c"

    items: list[Union[Alpha, Bravo, int, str]] = field(
        default_factory=list,
        metadata={
            "type": "Elements",
            "choices": (
                {"name": "alpha", "type": Alpha},
                {"name": "bravo", "type": Bravo},
                {"name": "count", "type": int},
                {"name": "word", "type": str, "namespace": "urn:c2"},
            ),
        },
    )


@dataclass
class Prim(metaclass=StableHashMeta):
    """Primitive unions and defaults."""

    class Meta:
        name = "prim"
        namespace = "urn:c"

    num: Union[int, float, str] = field(default=0, metadata={"type": "Element"})
    opt: Optional[Union[bool, Decimal]] = field(default=None, metadata={"type": "Attribute"})
    many: list[Union[int, str]] = field(default_factory=list, metadata={"type": "Element"})


@dataclass
class EitherWay(metaclass=StableHashMeta):
    """Union of models: UnionNode replays the events for every candidate."""

    class Meta:
        name = "either"
        namespace = "urn:c"

    pick: Optional[Union[Alpha, Bravo]] = field(default=None, metadata={"type": "Element"})
    label: str = field(default="", metadata={"type": "Element"})


@dataclass
class Seq(metaclass=StableHashMeta):
    class Meta:
        name = "seq"
        namespace = "urn:c"

    a: list[int] = field(default_factory=list, metadata={"type": "Element", "sequence": 1})
    b: list[str] = field(default_factory=list, metadata={"type": "Element", "sequence": 1})
    tail: Optional[str] = field(default=None, metadata={"type": "Element"})


@dataclass
class Wrapped(metaclass=StableHashMeta):
    class Meta:
        name = "wrapped"
        namespace = "urn:c"

    nums: list[int] = field(
        default_factory=list,
        metadata={"type": "Element", "name": "num", "wrapper": "nums"},
    )
    alphas: list[Alpha] = field(
        default_factory=list,
        metadata={"type": "Element", "name": "alpha", "wrapper": "alphas"},
    )


@dataclass
class Fwd(metaclass=StableHashMeta):
    """Forward reference resolvable from the module globals."""

    class Meta:
        name = "fwd"
        namespace = "urn:c"

    nxt: Optional["FwdTarget"] = field(default=None, metadata={"type": "Element"})


@dataclass
class FwdTarget(metaclass=StableHashMeta):
    class Meta:
        name = "fwdTarget"
        namespace = "urn:c"

    v: int = field(default=0, metadata={"type": "Attribute"})


@dataclass
class ROther(metaclass=StableHashMeta):
    class Meta:
        name = "rother"
        namespace = "urn:c"

    label: Optional[str] = field(default=None, metadata={"type": "Element"})


@dataclass
class RNode(metaclass=StableHashMeta):
    """Recursive union: best-match selection happens at every level."""

    class Meta:
        name = "rnode"
        namespace = "urn:c"

    value: Optional[int] = field(default=None, metadata={"type": "Element"})
    child: Optional[Union["RNode", ROther]] = field(default=None, metadata={"type": "Element"})
