"""Pool: the repository's own generated fixture models with their sample documents, when importable.

These are realistic generator output (kw_only dataclasses, Meta classes, compound and wrapper fields).
They live in /repo/tests/fixtures; nothing is copied. If the repository moves them the pool simply
does without.
"""
import os


def load(repo):
    out = {"classes": {}, "objs": {}, "xml": {}, "json": {}}
    fx = os.path.join(repo, "tests", "fixtures")

    def read(*parts, mode="rb"):
        with open(os.path.join(fx, *parts), mode) as f:
            return f.read()

    try:
        from tests.fixtures.books import BookForm, Books
        from tests.fixtures.books.fixtures import books

        out["classes"]["fx.Books"] = Books
        out["classes"]["fx.BookForm"] = BookForm
        import copy

        out["objs"]["fx_books"] = (lambda: copy.deepcopy(books), "fx.Books")
        for name in ("books.xml", "bk001.xml", "books_auto_ns.xml", "books_default_ns.xml"):
            try:
                ck = "fx.BookForm" if name.startswith("bk") else "fx.Books"
                out["xml"]["fx_" + name.replace(".", "_")] = (read("books", name), ck, None)
            except OSError:
                pass
        try:
            out["json"]["fxjs_books"] = (read("books", "books.json", mode="r"), "fx.Books", None)
        except OSError:
            pass
    except Exception:
        pass
    for pkg, cls_name, cls_key in (("primer", "PurchaseOrder", "fx.PurchaseOrder"), ("compound", "Root", "fx.CompoundRoot"), ("wrapper", "Wrapper", "fx.Wrapper")):
        try:
            mod = __import__(f"tests.fixtures.{pkg}", fromlist=[cls_name])
            clazz = getattr(mod, cls_name)
            out["classes"][cls_key] = clazz
            try:
                sample = __import__(f"tests.fixtures.{pkg}.sample", fromlist=["obj"])
                import copy

                out["objs"]["fx_" + pkg] = ((lambda o=sample.obj: copy.deepcopy(o)), cls_key)
            except Exception:
                pass
            try:
                out["xml"][f"fx_{pkg}_sample"] = (read(pkg, "sample.xml"), cls_key, None)
            except OSError:
                pass
            try:
                out["json"][f"fxjs_{pkg}"] = (read(pkg, "sample.json", mode="r"), cls_key, None)
            except OSError:
                pass
        except Exception:
            pass
    return out
