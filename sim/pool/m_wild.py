"""Pool: wildcards, mixed content, attribute maps."""
from dataclasses import dataclass, field

from sim.pool.base import StableHashMeta
from typing import Optional

__NAMESPACE__ = "urn:w"


@dataclass
class AnyBox(metaclass=StableHashMeta):
    class Meta:
        name = "anyBox"
        namespace = "urn:w"

    head: str = field(default="", metadata={"type": "Element"})
    any_el: list[object] = field(
        default_factory=list, metadata={"type": "Wildcard", "namespace": "##any"}
    )


@dataclass
class OtherBox(metaclass=StableHashMeta):
    class Meta:
        name = "otherBox"
        namespace = "urn:w"

    head: str = field(default="", metadata={"type": "Element"})
    other: list[object] = field(
        default_factory=list, metadata={"type": "Wildcard", "namespace": "##other"}
    )
    attrs: dict[str, str] = field(
        default_factory=dict, metadata={"type": "Attributes", "namespace": "##other"}
    )


@dataclass
class LocalBox(metaclass=StableHashMeta):
    class Meta:
        name = "localBox"
        namespace = "urn:w"

    local: Optional[object] = field(
        default=None, metadata={"type": "Wildcard", "namespace": "##local"}
    )
    target: list[object] = field(
        default_factory=list, metadata={"type": "Wildcard", "namespace": "##targetNamespace"}
    )


@dataclass
class TwoWild(metaclass=StableHashMeta):
    """Two wildcards: the per-field namespace memo decides which one takes an element."""

    class Meta:
        name = "twoWild"
        namespace = "urn:w"

    mine: list[object] = field(
        default_factory=list, metadata={"type": "Wildcard", "namespace": "urn:w ##local"}
    )
    rest: list[object] = field(
        default_factory=list, metadata={"type": "Wildcard", "namespace": "##other"}
    )


@dataclass
class Para(metaclass=StableHashMeta):
    class Meta:
        name = "p"
        namespace = "urn:w"

    content: list[object] = field(
        default_factory=list,
        metadata={"type": "Wildcard", "namespace": "##any", "mixed": True},
    )
    style: Optional[str] = field(default=None, metadata={"type": "Attribute"})


@dataclass
class Bold(metaclass=StableHashMeta):
    class Meta:
        name = "b"
        namespace = "urn:w"

    value: str = field(default="", metadata={"type": "Text"})
