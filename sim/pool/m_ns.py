"""Pool: namespace-inheritance twins.

`Child`, `Mid` and `Leaf` declare no namespace of their own, so their qualified
names are inherited from whoever nests them.
"""
from dataclasses import dataclass, field
from typing import Optional


@dataclass
class Leaf:
    v: str = field(default="", metadata={"type": "Element"})
    n: Optional[int] = field(default=None, metadata={"type": "Attribute"})


@dataclass
class Child:
    x: str = field(default="", metadata={"type": "Element"})
    y: Optional[int] = field(default=None, metadata={"type": "Element"})


@dataclass
class Mid:
    leaf: Optional[Leaf] = field(default=None, metadata={"type": "Element"})
    label: str = field(default="", metadata={"type": "Element"})


@dataclass
class ParentA:
    class Meta:
        name = "parentA"
        namespace = "urn:a"

    child: Optional[Child] = field(default=None, metadata={"type": "Element"})
    mid: Optional[Mid] = field(default=None, metadata={"type": "Element"})
    title: str = field(default="", metadata={"type": "Element"})


@dataclass
class ParentB:
    class Meta:
        name = "parentB"
        namespace = "urn:b"

    child: Optional[Child] = field(default=None, metadata={"type": "Element"})
    mid: Optional[Mid] = field(default=None, metadata={"type": "Element"})
    title: str = field(default="", metadata={"type": "Element"})


@dataclass
class ParentN:
    """No namespace at all."""

    class Meta:
        name = "parentN"

    child: Optional[Child] = field(default=None, metadata={"type": "Element"})
    mid: Optional[Mid] = field(default=None, metadata={"type": "Element"})


@dataclass
class WrapA:
    class Meta:
        name = "wrapA"
        namespace = "urn:a"

    kids: list[Child] = field(
        default_factory=list,
        metadata={"type": "Element", "name": "kid", "wrapper": "kids"},
    )


@dataclass
class WrapB:
    class Meta:
        name = "wrapB"
        namespace = "urn:b"

    kids: list[Child] = field(
        default_factory=list,
        metadata={"type": "Element", "name": "kid", "wrapper": "kids"},
    )


@dataclass
class Node:
    """Self-referential, no namespace."""

    name: str = field(default="", metadata={"type": "Attribute"})
    node: list["Node"] = field(default_factory=list, metadata={"type": "Element"})


@dataclass
class TreeA:
    class Meta:
        name = "treeA"
        namespace = "urn:a"

    node: Optional[Node] = field(default=None, metadata={"type": "Element"})


@dataclass
class TreeB:
    class Meta:
        name = "treeB"
        namespace = "urn:b"

    node: Optional[Node] = field(default=None, metadata={"type": "Element"})
