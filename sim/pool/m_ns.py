"""Pool: namespace-inheritance twins.

`Child`, `Mid` and `Leaf` declare no namespace of their own, so their qualified
names are inherited from whoever nests them.
"""
from dataclasses import dataclass, field

from sim.pool.base import StableHashMeta
from typing import Optional, Union


@dataclass
class Leaf(metaclass=StableHashMeta):
    v: str = field(default="", metadata={"type": "Element"})
    n: Optional[int] = field(default=None, metadata={"type": "Attribute"})


@dataclass
class Child(metaclass=StableHashMeta):
    x: str = field(default="", metadata={"type": "Element"})
    y: Optional[int] = field(default=None, metadata={"type": "Element"})


@dataclass
class Mid(metaclass=StableHashMeta):
    leaf: Optional[Leaf] = field(default=None, metadata={"type": "Element"})
    label: str = field(default="", metadata={"type": "Element"})


@dataclass
class ParentA(metaclass=StableHashMeta):
    class Meta:
        name = "parentA"
        namespace = "urn:a"

    child: Optional[Child] = field(default=None, metadata={"type": "Element"})
    mid: Optional[Mid] = field(default=None, metadata={"type": "Element"})
    title: str = field(default="", metadata={"type": "Element"})


@dataclass
class ParentB(metaclass=StableHashMeta):
    class Meta:
        name = "parentB"
        namespace = "urn:b"

    child: Optional[Child] = field(default=None, metadata={"type": "Element"})
    mid: Optional[Mid] = field(default=None, metadata={"type": "Element"})
    title: str = field(default="", metadata={"type": "Element"})


@dataclass
class ParentN(metaclass=StableHashMeta):
    """No namespace at all."""

    class Meta:
        name = "parentN"

    child: Optional[Child] = field(default=None, metadata={"type": "Element"})
    mid: Optional[Mid] = field(default=None, metadata={"type": "Element"})


@dataclass
class WrapA(metaclass=StableHashMeta):
    class Meta:
        name = "wrapA"
        namespace = "urn:a"

    kids: list[Child] = field(
        default_factory=list,
        metadata={"type": "Element", "name": "kid", "wrapper": "kids"},
    )


@dataclass
class WrapB(metaclass=StableHashMeta):
    class Meta:
        name = "wrapB"
        namespace = "urn:b"

    kids: list[Child] = field(
        default_factory=list,
        metadata={"type": "Element", "name": "kid", "wrapper": "kids"},
    )


@dataclass
class Node(metaclass=StableHashMeta):
    """Self-referential, no namespace."""

    name: str = field(default="", metadata={"type": "Attribute"})
    node: list["Node"] = field(default_factory=list, metadata={"type": "Element"})


@dataclass
class TreeA(metaclass=StableHashMeta):
    class Meta:
        name = "treeA"
        namespace = "urn:a"

    node: Optional[Node] = field(default=None, metadata={"type": "Element"})


@dataclass
class TreeB(metaclass=StableHashMeta):
    class Meta:
        name = "treeB"
        namespace = "urn:b"

    node: Optional[Node] = field(default=None, metadata={"type": "Element"})


@dataclass
class BaseNs(metaclass=StableHashMeta):
    """Declares a namespace; subclasses without their own Meta do NOT inherit it (Meta is not inheritable)."""

    class Meta:
        namespace = "urn:base"

    base_field: str = field(default="", metadata={"type": "Element"})


@dataclass
class SubNs(BaseNs):
    """No Meta of its own: its qualified names come from whoever nests it."""

    label: str = field(default="", metadata={"type": "Element"})
    code: Optional[int] = field(default=None, metadata={"type": "Attribute"})


@dataclass
class HolderA(metaclass=StableHashMeta):
    class Meta:
        name = "holderA"
        namespace = "urn:a"

    sub: Optional[SubNs] = field(default=None, metadata={"type": "Element"})
    subs: list[SubNs] = field(default_factory=list, metadata={"type": "Element", "name": "s"})


@dataclass
class HolderB(metaclass=StableHashMeta):
    class Meta:
        name = "holderB"
        namespace = "urn:b"

    sub: Optional[SubNs] = field(default=None, metadata={"type": "Element"})
    subs: list[SubNs] = field(default_factory=list, metadata={"type": "Element", "name": "s"})


@dataclass
class U1(metaclass=StableHashMeta):
    """Union candidates without a namespace: the union replay must hand the parent namespace down."""

    a: Optional[int] = field(default=None, metadata={"type": "Element"})


@dataclass
class U2(metaclass=StableHashMeta):
    b: Optional[str] = field(default=None, metadata={"type": "Element"})


@dataclass
class PickA(metaclass=StableHashMeta):
    class Meta:
        name = "pickA"
        namespace = "urn:a"

    pick: Optional[Union[U1, U2]] = field(default=None, metadata={"type": "Element"})


@dataclass
class PickB(metaclass=StableHashMeta):
    class Meta:
        name = "pickB"
        namespace = "urn:b"

    pick: Optional[Union[U1, U2]] = field(default=None, metadata={"type": "Element"})
