"""Pool: late module 1 - registered in sys.modules only by an import event."""
from dataclasses import dataclass, field

from sim.pool.base import StableHashMeta
from typing import Optional

from sim.pool.m_xsi import Animal

__NAMESPACE__ = "urn:late1"


@dataclass
class Bird(Animal):
    class Meta:
        name = "bird"
        namespace = "urn:late1"

    wingspan: Optional[float] = field(default=None, metadata={"type": "Element", "namespace": "urn:late1"})


@dataclass
class LateRoot(metaclass=StableHashMeta):
    class Meta:
        name = "lateRoot"
        namespace = "urn:late1"

    late_one_field: str = field(default="", metadata={"type": "Element"})
    late_one_count: Optional[int] = field(default=None, metadata={"type": "Attribute"})
