"""Pool: late module 1 - registered in sys.modules only by an import event."""
from dataclasses import dataclass, field

from sim.pool.base import StableHashMeta
from sim.sched import cooperative_yield
from typing import Optional

from sim.pool.m_xsi import Animal

__NAMESPACE__ = "urn:late1"


# `@dataclass class Bird(Animal)` is two steps for the interpreter: the class statement creates Bird (from then
# on Animal.__subclasses__() lists it, and dataclasses.is_dataclass(Bird) is already true through inheritance),
# then the decorator processes its own fields. Another thread may run between the two; the harness marks the spot.
class Bird(Animal):
    class Meta:
        name = "bird"
        namespace = "urn:late1"

    wingspan: Optional[float] = field(default=None, metadata={"type": "Element", "namespace": "urn:late1"})


cooperative_yield("import:m_late1.Bird")
Bird = dataclass(Bird)


@dataclass
class LateRoot(metaclass=StableHashMeta):
    class Meta:
        name = "lateRoot"
        namespace = "urn:late1"

    late_one_field: str = field(default="", metadata={"type": "Element"})
    late_one_count: Optional[int] = field(default=None, metadata={"type": "Attribute"})
