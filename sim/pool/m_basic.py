"""Pool: plain typed fields (harness data, not part of xsdata)."""
from dataclasses import dataclass, field
from datetime import date

from sim.pool.base import StableHashMeta
from decimal import Decimal
from enum import Enum
from typing import Optional
from xml.etree.ElementTree import QName

from xsdata.models.datatype import XmlDate, XmlDateTime, XmlDuration, XmlPeriod, XmlTime

__NAMESPACE__ = "urn:basic"


class Kind(Enum):
    SMALL = "small"
    LARGE = "large"
    OTHER = "other one"


class Level(Enum):
    ONE = 1
    TWO = 2


class FaultCode(Enum):
    """QName-valued members: what `c:Sender` means depends on the prefix bindings in scope."""

    V1_SENDER = QName("{urn:fault:v1}Sender")
    V1_RECEIVER = QName("{urn:fault:v1}Receiver")
    V2_SENDER = QName("{urn:fault:v2}Sender")


@dataclass
class Item(metaclass=StableHashMeta):
    class Meta:
        name = "item"
        namespace = "urn:basic"

    id: int = field(metadata={"type": "Attribute", "required": True})
    code: Optional[str] = field(default=None, metadata={"type": "Attribute"})
    lang: str = field(
        default="en",
        metadata={"type": "Attribute", "namespace": "http://www.w3.org/XML/1998/namespace"},
    )
    name: str = field(default="", metadata={"type": "Element", "required": True})
    price: Optional[Decimal] = field(default=None, metadata={"type": "Element"})
    qty: int = field(default=1, metadata={"type": "Element"})
    flag: Optional[bool] = field(default=None, metadata={"type": "Element"})
    ratio: Optional[float] = field(default=None, metadata={"type": "Element"})
    tags: list[str] = field(default_factory=list, metadata={"type": "Element", "tokens": True})
    kind: Optional[Kind] = field(default=None, metadata={"type": "Element"})
    level: Optional[Level] = field(default=None, metadata={"type": "Attribute"})
    when: Optional[XmlDate] = field(default=None, metadata={"type": "Element"})
    stamp: Optional[XmlDateTime] = field(default=None, metadata={"type": "Element"})
    at: Optional[XmlTime] = field(default=None, metadata={"type": "Element"})
    took: Optional[XmlDuration] = field(default=None, metadata={"type": "Element"})
    data: Optional[bytes] = field(default=None, metadata={"type": "Element", "format": "base64"})
    hexdata: Optional[bytes] = field(default=None, metadata={"type": "Element", "format": "base16"})
    note: Optional[str] = field(default=None, metadata={"type": "Element", "nillable": True})
    ref: Optional[QName] = field(default=None, metadata={"type": "Element"})
    refattr: Optional[QName] = field(default=None, metadata={"type": "Attribute"})
    version: str = field(init=False, default="1.0", metadata={"type": "Attribute"})


@dataclass
class Order(metaclass=StableHashMeta):
    class Meta:
        name = "order"
        namespace = "urn:basic"

    number: int = field(metadata={"type": "Attribute"})
    item: list[Item] = field(default_factory=list, metadata={"type": "Element"})
    comment: Optional[str] = field(default=None, metadata={"type": "Element"})
    extra: dict[str, str] = field(default_factory=dict, metadata={"type": "Attributes"})


@dataclass
class Price(metaclass=StableHashMeta):
    """Simple content with attribute."""

    class Meta:
        name = "price"
        namespace = "urn:basic"

    value: Decimal = field(default=Decimal("0"), metadata={"type": "Text"})
    currency: str = field(default="EUR", metadata={"type": "Attribute"})


@dataclass
class Catalog(metaclass=StableHashMeta):
    class Meta:
        name = "catalog"
        namespace = "urn:basic"

    price: list[Price] = field(default_factory=list, metadata={"type": "Element"})
    numbers: list[int] = field(default_factory=list, metadata={"type": "Element", "name": "n"})
    dates: list[XmlDate] = field(
        default_factory=list, metadata={"type": "Element", "name": "d", "format": None}
    )
    updated: Optional[XmlDateTime] = field(default=None, metadata={"type": "Attribute"})


@dataclass(frozen=True)
class Point(metaclass=StableHashMeta):
    class Meta:
        name = "point"
        namespace = "urn:basic"

    x: int = field(default=0, metadata={"type": "Attribute"})
    y: int = field(default=0, metadata={"type": "Attribute"})
    labels: tuple[str, ...] = field(default_factory=tuple, metadata={"type": "Element", "name": "label"})


def upper_name(name: str) -> str:
    return name.upper()


def dash_name(name: str) -> str:
    return "a-" + name


@dataclass
class Shouty(metaclass=StableHashMeta):
    """Class-level name generators."""

    class Meta:
        namespace = "urn:basic"
        element_name_generator = upper_name
        attribute_name_generator = dash_name

    first_value: str = field(default="", metadata={"type": "Element"})
    second: int = field(default=0, metadata={"type": "Attribute"})


@dataclass
class Fault(metaclass=StableHashMeta):
    class Meta:
        name = "fault"
        namespace = "urn:basic"

    code: Optional[FaultCode] = field(default=None, metadata={"type": "Element"})
    sub: list[FaultCode] = field(default_factory=list, metadata={"type": "Element"})
    attr_code: Optional[FaultCode] = field(default=None, metadata={"type": "Attribute"})


@dataclass
class Formats(metaclass=StableHashMeta):
    """The same lexical value under different `format=` settings."""

    class Meta:
        name = "formats"
        namespace = "urn:basic"

    b64: Optional[bytes] = field(default=None, metadata={"type": "Element", "format": "base64"})
    b16: Optional[bytes] = field(default=None, metadata={"type": "Element", "format": "base16"})
    dmy: Optional[date] = field(default=None, metadata={"type": "Element", "format": "%d/%m/%Y"})
    mdy: Optional[date] = field(default=None, metadata={"type": "Element", "format": "%m/%d/%Y"})
    plain: Optional[XmlDate] = field(default=None, metadata={"type": "Element"})


@dataclass
class Edge(metaclass=StableHashMeta):
    """Token lists, nillable lists, fixed values, periods, an inner class."""

    class Meta:
        name = "edge"
        namespace = "urn:basic"

    @dataclass
    class Inner(metaclass=StableHashMeta):
        v: Optional[int] = field(default=None, metadata={"type": "Attribute"})
        w: list[str] = field(default_factory=list, metadata={"type": "Element", "namespace": "urn:basic"})

    ints: list[int] = field(default_factory=list, metadata={"type": "Element", "tokens": True})
    levels: list[Level] = field(default_factory=list, metadata={"type": "Attribute", "tokens": True})
    notes: list[Optional[str]] = field(default_factory=list, metadata={"type": "Element", "nillable": True})
    year: Optional[XmlPeriod] = field(default=None, metadata={"type": "Element"})
    month_day: Optional[XmlPeriod] = field(default=None, metadata={"type": "Attribute"})
    inner: Optional["Edge.Inner"] = field(default=None, metadata={"type": "Element"})
    inners: list["Edge.Inner"] = field(default_factory=list, metadata={"type": "Element", "name": "in"})
    fixed_float: float = field(init=False, default=float("nan"), metadata={"type": "Attribute"})
    fixed_text: str = field(init=False, default="  keep  ", metadata={"type": "Element"})
    fixed_dec: Decimal = field(init=False, default=Decimal("1.5"), metadata={"type": "Attribute"})
    fixed_int: int = field(init=False, default=7, metadata={"type": "Element"})
    uri: Optional[str] = field(default=None, metadata={"type": "Attribute"})
    big: Optional[int] = field(default=None, metadata={"type": "Element"})
    flt: Optional[float] = field(default=None, metadata={"type": "Element"})
    dec: Optional[Decimal] = field(default=None, metadata={"type": "Attribute"})
