"""Pool: less common model features (nillable list items, skipped wildcards, slots, local types,
enum token lists, byte unions, attribute maps next to explicit attributes, xs:anyType fields)."""
from dataclasses import dataclass, field
from decimal import Decimal
from enum import Enum
from typing import Optional, Union

from sim.pool.base import StableHashMeta
from xsdata.models.datatype import XmlDate, XmlDateTime, XmlTime

__NAMESPACE__ = "urn:e"


@dataclass
class NilList(metaclass=StableHashMeta):
    class Meta:
        name = "nilList"
        namespace = "urn:e"

    values: list[Optional[int]] = field(default_factory=list, metadata={"type": "Element", "name": "value", "nillable": True})
    names: list[Optional[str]] = field(default_factory=list, metadata={"type": "Element", "name": "name", "nillable": True})
    opt: Optional[int] = field(default=None, metadata={"type": "Element", "nillable": True})
    total: Optional[int] = field(default=None, metadata={"type": "Attribute"})


@dataclass
class SkipBox(metaclass=StableHashMeta):
    class Meta:
        name = "skipBox"
        namespace = "urn:e"

    head: Optional[str] = field(default=None, metadata={"type": "Element"})
    skipped: list[object] = field(default_factory=list, metadata={"type": "Wildcard", "namespace": "##other", "process_contents": "skip"})
    strict: list[object] = field(default_factory=list, metadata={"type": "Wildcard", "namespace": "##targetNamespace ##local"})


@dataclass(slots=True)
class Slotted(metaclass=StableHashMeta):
    class Meta:
        name = "slotted"
        namespace = "urn:e"

    id: Optional[int] = field(default=None, metadata={"type": "Attribute", "required": True})
    v: list[str] = field(default_factory=list, metadata={"type": "Element"})
    kid: Optional["Slotted"] = field(default=None, metadata={"type": "Element"})


@dataclass
class LocalThing(metaclass=StableHashMeta):
    """Not a global type: never a candidate for class-less lookups or xsi:type."""

    class Meta:
        name = "thing"
        namespace = "urn:e"
        global_type = False

    v: Optional[str] = field(default=None, metadata={"type": "Element"})


@dataclass
class GlobalThing(metaclass=StableHashMeta):
    class Meta:
        name = "thing"
        namespace = "urn:e"

    w: Optional[int] = field(default=None, metadata={"type": "Element"})


@dataclass
class Holder(metaclass=StableHashMeta):
    class Meta:
        name = "holder"
        namespace = "urn:e"

    local: Optional[LocalThing] = field(default=None, metadata={"type": "Element"})
    thing: Optional[GlobalThing] = field(default=None, metadata={"type": "Element"})
    anything: Optional[object] = field(default=None, metadata={"type": "Element"})
    more: list[object] = field(default_factory=list, metadata={"type": "Element", "name": "more"})


class Color(Enum):
    RED = "red"
    GREEN = "green"
    BLUE = "blue"
    DARK_RED = "dark red"


class Code(Enum):
    A = 1
    B = 2
    C = 30


@dataclass
class Tokens(metaclass=StableHashMeta):
    class Meta:
        name = "tokens"
        namespace = "urn:e"

    colors: list[Color] = field(default_factory=list, metadata={"type": "Element", "tokens": True})
    rows: list[list[Code]] = field(default_factory=list, metadata={"type": "Element", "name": "row", "tokens": True})
    color_attr: list[Color] = field(default_factory=list, metadata={"type": "Attribute", "name": "colorAttr", "tokens": True})
    ids: list[str] = field(default_factory=list, metadata={"type": "Attribute", "tokens": True})
    one: Optional[Color] = field(default=None, metadata={"type": "Attribute"})
    code_or_color: Optional[Union[Code, Color]] = field(default=None, metadata={"type": "Element", "name": "either"})
    req: Optional[str] = field(default=None, metadata={"type": "Attribute", "required": True})


@dataclass
class Blobs(metaclass=StableHashMeta):
    class Meta:
        name = "blobs"
        namespace = "urn:e"

    blob: Optional[bytes] = field(default=None, metadata={"type": "Element", "format": "base64"})
    hexes: list[bytes] = field(default_factory=list, metadata={"type": "Element", "name": "hex", "format": "base16"})
    num_or_hex: Optional[Union[int, bytes]] = field(default=None, metadata={"type": "Element", "name": "numOrHex", "format": "base16"})
    key: Optional[bytes] = field(default=None, metadata={"type": "Attribute", "format": "base64"})
    value: Optional[bytes] = field(default=None, metadata={"type": "Text", "format": "base16"})


@dataclass
class AttrMix(metaclass=StableHashMeta):
    class Meta:
        name = "attrMix"
        namespace = "urn:e"

    id: Optional[str] = field(default=None, metadata={"type": "Attribute"})
    lang: Optional[str] = field(default=None, metadata={"type": "Attribute", "name": "lang", "namespace": "http://www.w3.org/XML/1998/namespace"})
    space: Optional[str] = field(default=None, metadata={"type": "Attribute", "name": "space", "namespace": "http://www.w3.org/XML/1998/namespace"})
    qualified: Optional[int] = field(default=None, metadata={"type": "Attribute", "namespace": "urn:e"})
    rest: dict[str, str] = field(default_factory=dict, metadata={"type": "Attributes"})
    value: Optional[int] = field(default=None, metadata={"type": "Text"})


class Rate(Enum):
    LOW = Decimal("1.5")
    HIGH = Decimal("2")
    NONE = Decimal("0")


@dataclass
class Rated(metaclass=StableHashMeta):
    class Meta:
        name = "rated"
        namespace = "urn:e"

    rate: Optional[Rate] = field(default=None, metadata={"type": "Element"})
    rates: list[Rate] = field(default_factory=list, metadata={"type": "Attribute", "tokens": True})
    amount: Optional[Decimal] = field(default=None, metadata={"type": "Element"})
    scale: Decimal = field(init=False, default=Decimal("1.0"), metadata={"type": "Attribute"})
    unit: float = field(init=False, default=2.5, metadata={"type": "Element"})


@dataclass
class OneWild(metaclass=StableHashMeta):
    """A single-valued wildcard: a second matching child has to be merged into or rejected by the first."""

    class Meta:
        name = "oneWild"
        namespace = "urn:e"

    head: Optional[str] = field(default=None, metadata={"type": "Element"})
    single: Optional[object] = field(default=None, metadata={"type": "Wildcard", "namespace": "##any"})
    tail: Optional[int] = field(default=None, metadata={"type": "Element"})


@dataclass
class WildChoice(metaclass=StableHashMeta):
    """A compound field whose choices include a wildcard."""

    class Meta:
        name = "wildChoice"
        namespace = "urn:e"

    items: list[object] = field(
        default_factory=list,
        metadata={
            "type": "Elements",
            "choices": (
                {"name": "thing", "type": GlobalThing},
                {"name": "n", "type": int},
                {"name": "color", "type": Color, "nillable": True},
                {"wildcard": True, "type": object, "namespace": "##any"},
            ),
        },
    )
    label: Optional[str] = field(default=None, metadata={"type": "Attribute"})


@dataclass
class XCustomer(metaclass=StableHashMeta):
    class Meta:
        name = "customer"
        namespace = "urn:e"

    id: Optional[str] = field(default=None, metadata={"type": "Attribute"})
    name: Optional[str] = field(default=None, metadata={"type": "Element"})


@dataclass
class XOrder(metaclass=StableHashMeta):
    """Documents of this class live in files that pull their parts in through XInclude."""

    class Meta:
        name = "xorder"
        namespace = "urn:e"

    number: Optional[str] = field(default=None, metadata={"type": "Attribute"})
    customer: Optional[XCustomer] = field(default=None, metadata={"type": "Element"})
    line: list[str] = field(default_factory=list, metadata={"type": "Element"})
    note: Optional[str] = field(default=None, metadata={"type": "Element"})


@dataclass
class _HiddenPart(metaclass=StableHashMeta):
    class Meta:
        name = "part"
        namespace = "urn:e"

    v: Optional[int] = field(default=None, metadata={"type": "Element"})


@dataclass
class _HiddenPart2(metaclass=StableHashMeta):
    class Meta:
        name = "part"
        namespace = "urn:e"

    w: Optional[str] = field(default=None, metadata={"type": "Attribute"})


# A second caller resolves the same annotation to another class.
GLOBALNS2 = {"HiddenPart": _HiddenPart2}

# The annotations of NeedsGlobals name this class as "HiddenPart", which no module defines: they resolve
# only through SerializerConfig(globalns=GLOBALNS).
GLOBALNS = {"HiddenPart": _HiddenPart}


@dataclass
class NeedsGlobals(metaclass=StableHashMeta):
    class Meta:
        name = "needsGlobals"
        namespace = "urn:e"

    hidden_part: Optional["HiddenPart"] = field(default=None, metadata={"type": "Element", "name": "hiddenPart"})  # noqa: F821
    hidden_parts: list["HiddenPart"] = field(default_factory=list, metadata={"type": "Element", "name": "hiddenParts"})  # noqa: F821
    hidden_label: Optional[str] = field(default=None, metadata={"type": "Attribute", "name": "hiddenLabel"})


@dataclass
class Collar(metaclass=StableHashMeta):
    color: Optional[str] = field(default=None, metadata={"type": "Element"})


@dataclass
class Pet(metaclass=StableHashMeta):
    class Meta:
        name = "pet"
        namespace = "urn:e"

    name: Optional[str] = field(default=None, metadata={"type": "Element"})
    collar: Optional[Collar] = field(default=None, metadata={"type": "Element"})


@dataclass
class HouseCat(Pet):
    class Meta:
        name = "houseCat"
        namespace = "urn:e"

    lives: Optional[int] = field(default=None, metadata={"type": "Element"})


@dataclass
class HouseDog(Pet):
    class Meta:
        name = "houseDog"
        namespace = "urn:e"

    bark: Optional[int] = field(default=None, metadata={"type": "Element"})


@dataclass
class Owner(metaclass=StableHashMeta):
    """Objects below a union or base-typed field are decoded by candidate decoders with their own configuration."""

    class Meta:
        name = "owner"
        namespace = "urn:e"

    pet: Optional[Union[HouseCat, HouseDog]] = field(default=None, metadata={"type": "Element"})
    others: list[Pet] = field(default_factory=list, metadata={"type": "Element", "name": "other"})


class Release(Enum):
    FIRST = XmlDateTime(2020, 1, 1, 0, 0, 0)
    SECOND = XmlDateTime(2021, 6, 30, 23, 59, 59, 0, 120)


class Day(Enum):
    D1 = XmlDate(2020, 2, 29)
    D2 = XmlDate(1999, 12, 31)


@dataclass
class Stamped(metaclass=StableHashMeta):
    """Date-valued enumerations and fixed values: every parsed value is compared with a constant."""

    class Meta:
        name = "stamped"
        namespace = "urn:e"

    release: Optional[Release] = field(default=None, metadata={"type": "Element"})
    days: list[Day] = field(default_factory=list, metadata={"type": "Attribute", "tokens": True})
    at: XmlDateTime = field(init=False, default=XmlDateTime(2020, 1, 1, 0, 0, 0), metadata={"type": "Attribute"})
    opens: XmlTime = field(init=False, default=XmlTime(9, 0, 0), metadata={"type": "Element"})


@dataclass
class Group(metaclass=StableHashMeta):
    """Two union members that both fit at every level of a recursive structure."""

    class Meta:
        name = "group"
        namespace = "urn:e"

    name: Optional[str] = field(default=None, metadata={"type": "Attribute"})
    child: Optional[Union["Group", "Folder"]] = field(default=None, metadata={"type": "Element"})


@dataclass
class Folder(metaclass=StableHashMeta):
    class Meta:
        name = "folder"
        namespace = "urn:e"

    name: Optional[str] = field(default=None, metadata={"type": "Attribute"})
    child: Optional[Union["Group", "Folder"]] = field(default=None, metadata={"type": "Element"})


@dataclass
class Chain(metaclass=StableHashMeta):
    """A recursive field typed with a class that has a subclass: JSON decoding tries both at every level."""

    class Meta:
        name = "chain"
        namespace = "urn:e"

    label: Optional[str] = field(default=None, metadata={"type": "Attribute"})
    next: Optional["Chain"] = field(default=None, metadata={"type": "Element"})


@dataclass
class BoldChain(Chain):
    class Meta:
        name = "boldChain"
        namespace = "urn:e"


@dataclass
class MixedMoney(metaclass=StableHashMeta):
    """Mixed content whose wildcard has typed choices: parsed values are written back as text."""

    class Meta:
        name = "mixedMoney"
        namespace = "urn:e"

    content: list[object] = field(
        default_factory=list,
        metadata={
            "type": "Wildcard",
            "namespace": "##any",
            "mixed": True,
            "choices": ({"name": "amount", "type": Decimal}, {"name": "count", "type": int}, {"name": "ratio", "type": float}, {"name": "b", "type": str}),
        },
    )


@dataclass
class Measure(metaclass=StableHashMeta):
    """A compound field without a string choice: a plain string value has to be matched by its lexical form."""

    class Meta:
        name = "measure"
        namespace = "urn:e"

    items: list[object] = field(
        default_factory=list,
        metadata={
            "type": "Elements",
            "choices": (
                {"name": "count", "type": int},
                {"name": "ratio", "type": float},
                {"name": "day", "type": XmlDate},
                {"name": "amount", "type": Decimal},
            ),
        },
    )


def make_invoice(namespace):
    """Classes made by one factory share their module and qualified name."""

    @dataclass
    class Invoice(metaclass=StableHashMeta):
        class Meta:
            name = "invoice"

        number: Optional[str] = field(default=None, metadata={"type": "Element"})
        total: Optional[Decimal] = field(default=None, metadata={"type": "Attribute"})

    Invoice.Meta.namespace = namespace
    return Invoice


InvoiceV1 = make_invoice("urn:invoice:v1")
InvoiceV2 = make_invoice("urn:invoice:v2")
InvoiceNone = make_invoice(None)


class Sku:
    """A value type that needs a converter of its own; m_conv (a late module) registers one."""

    __slots__ = ("code",)

    def __init__(self, code):
        self.code = code

    def __eq__(self, other):
        return isinstance(other, Sku) and other.code == self.code

    def __hash__(self):
        return hash(self.code)

    def __repr__(self):
        return f"Sku({self.code!r})"


@dataclass
class Stocked(metaclass=StableHashMeta):
    class Meta:
        name = "stocked"
        namespace = "urn:e"

    sku: Optional[Sku] = field(default=None, metadata={"type": "Element"})
    alt: Optional[Sku] = field(default=None, metadata={"type": "Attribute"})
    qty: Optional[int] = field(default=None, metadata={"type": "Element"})


# Ordinary application dataclasses (not binding models: a mapping-typed field has no XML form) that happen to share
# their name with the element name of a binding model, once defined before it and once after it.
@dataclass
class Settings1:
    settings_one_name: str = ""
    options: dict[str, int] = field(default_factory=dict)


@dataclass
class AppSettings1(metaclass=StableHashMeta):
    class Meta:
        name = "Settings1"

    settings_one_name: Optional[str] = field(default=None, metadata={"type": "Element"})


@dataclass
class AppSettings2(metaclass=StableHashMeta):
    class Meta:
        name = "Settings2"

    settings_two_name: Optional[str] = field(default=None, metadata={"type": "Element"})


@dataclass
class Settings2:
    settings_two_name: str = ""
    options: dict[str, int] = field(default_factory=dict)


@dataclass
class BrokenHints:
    """An application dataclass whose annotation string is not an expression; it only has to be loaded."""

    broken_hint_field: "List[" = None  # noqa: F821


@dataclass
class OrderLine(metaclass=StableHashMeta):
    """No names in the metadata: the element and attribute names come from the context's name generators."""

    line_no: Optional[int] = field(default=None, metadata={"type": "Attribute"})
    unit_price: Optional[Decimal] = field(default=None, metadata={"type": "Element"})
    order_items: list[str] = field(default_factory=list, metadata={"type": "Element"})


class LooseEnum(Enum):
    """Base of enumerations that an optional plug-in (m_conv, a late module) matches case-insensitively."""


class Shade(LooseEnum):
    RED = "red"
    GREEN = "green"


@dataclass
class Painted(metaclass=StableHashMeta):
    class Meta:
        name = "painted"
        namespace = "urn:e"

    shade: Optional[Shade] = field(default=None, metadata={"type": "Attribute"})
    shades: list[Shade] = field(default_factory=list, metadata={"type": "Element", "name": "tint"})


class Matrix:
    """Not subscriptable: evaluating the annotation below raises TypeError."""


@dataclass
class Plot:
    """A dataclass in the conventions of some other library; it only has to be loaded."""

    plot_data: "Optional[Matrix[float]]" = None


@dataclass
class CliOptions:
    cli_verbose: bool = field(default=False, metadata={"type": "flag", "help": "say more"})
