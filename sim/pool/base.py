"""Address-independent hashing for pool classes.

xsdata puts classes into sets (`element_types`, subclass sets); CPython hashes a class
by its address, so the iteration order of such sets - and with it the order in which
a simulated thread reaches its yield points - would change from one interpreter start
to the next. Pool classes hash by qualified name instead, which keeps replay files
valid across invocations. Equality is still identity.
"""
import zlib


class StableHashMeta(type):
    def __hash__(cls):
        return zlib.crc32(f"{cls.__module__}.{cls.__qualname__}".encode())


