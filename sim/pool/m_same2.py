"""Pool: see m_same1."""
from dataclasses import dataclass, field

from sim.pool.base import StableHashMeta
from typing import Optional

__NAMESPACE__ = "urn:s2"


@dataclass
class Thing(metaclass=StableHashMeta):
    class Meta:
        name = "thing"
        namespace = "urn:s2"

    beta: str = field(default="", metadata={"type": "Element"})
    size: Optional[str] = field(default=None, metadata={"type": "Attribute"})


@dataclass
class Dup(metaclass=StableHashMeta):
    class Meta:
        name = "dup"
        namespace = "urn:dup"
        target_namespace = "urn:dup"

    first: str = field(default="", metadata={"type": "Element"})
    second: Optional[int] = field(default=None, metadata={"type": "Element"})
