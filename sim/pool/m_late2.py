"""Pool: late module 2 - registered in sys.modules only by an import event."""
from dataclasses import dataclass, field

from sim.pool.base import StableHashMeta
from typing import Optional

__NAMESPACE__ = "urn:late2"


@dataclass
class LateTwo(metaclass=StableHashMeta):
    class Meta:
        name = "lateTwo"
        namespace = "urn:late2"

    late_two_field: str = field(default="", metadata={"type": "Element"})
    late_two_flag: Optional[bool] = field(default=None, metadata={"type": "Attribute"})
