"""Pool: xsi:type hierarchies, anyType fields, root lookup without a class."""
from dataclasses import dataclass, field

from sim.pool.base import StableHashMeta
from decimal import Decimal
from typing import Optional, Union

__NAMESPACE__ = "urn:x"


@dataclass
class Animal(metaclass=StableHashMeta):
    class Meta:
        name = "animal"
        namespace = "urn:x"

    name: str = field(default="", metadata={"type": "Element"})


@dataclass
class Dog(Animal):
    class Meta:
        name = "dog"
        namespace = "urn:x"

    bark: Optional[int] = field(default=None, metadata={"type": "Element"})


@dataclass
class Cat(Animal):
    class Meta:
        name = "cat"
        namespace = "urn:x"

    lives: int = field(default=9, metadata={"type": "Attribute"})


@dataclass
class Zoo(metaclass=StableHashMeta):
    class Meta:
        name = "zoo"
        namespace = "urn:x"

    star: Optional[Animal] = field(default=None, metadata={"type": "Element"})
    animal: list[Animal] = field(default_factory=list, metadata={"type": "Element"})
    thing: Optional[object] = field(default=None, metadata={"type": "Element"})
    things: list[object] = field(default_factory=list, metadata={"type": "Element", "name": "t"})


@dataclass
class Unrelated(metaclass=StableHashMeta):
    class Meta:
        name = "unrelated"
        namespace = "urn:x"

    name: str = field(default="", metadata={"type": "Element"})
    only_here: Optional[str] = field(default=None, metadata={"type": "Element"})


@dataclass
class Kennel(metaclass=StableHashMeta):
    """Same element names as Zoo, but typed with the derived class: no xsi:type is needed here."""

    class Meta:
        name = "kennel"
        namespace = "urn:x"

    star: Optional[Dog] = field(default=None, metadata={"type": "Element"})
    animal: list[Dog] = field(default_factory=list, metadata={"type": "Element"})
    thing: Optional[Cat] = field(default=None, metadata={"type": "Element"})


@dataclass
class Pets(metaclass=StableHashMeta):
    """Compound field whose choices are a base class and its subclasses: the exact type must win."""

    class Meta:
        name = "pets"
        namespace = "urn:x"

    items: list[Union[Animal, Dog, Cat]] = field(
        default_factory=list,
        metadata={
            "type": "Elements",
            "choices": (
                {"name": "animal", "type": Animal},
                {"name": "dog", "type": Dog},
                {"name": "cat", "type": Cat},
            ),
        },
    )


class Money(Decimal):
    """A subclass of a type the converter knows: converted through the parent's converter."""


@dataclass
class Till(metaclass=StableHashMeta):
    class Meta:
        name = "till"
        namespace = "urn:x"

    amount: Optional[Money] = field(default=None, metadata={"type": "Element"})
