"""Pool: xsi:type hierarchies, anyType fields, root lookup without a class."""
from dataclasses import dataclass, field

from sim.pool.base import StableHashMeta
from typing import Optional

__NAMESPACE__ = "urn:x"


@dataclass
class Animal(metaclass=StableHashMeta):
    class Meta:
        name = "animal"
        namespace = "urn:x"

    name: str = field(default="", metadata={"type": "Element"})


@dataclass
class Dog(Animal):
    class Meta:
        name = "dog"
        namespace = "urn:x"

    bark: Optional[int] = field(default=None, metadata={"type": "Element"})


@dataclass
class Cat(Animal):
    class Meta:
        name = "cat"
        namespace = "urn:x"

    lives: int = field(default=9, metadata={"type": "Attribute"})


@dataclass
class Zoo(metaclass=StableHashMeta):
    class Meta:
        name = "zoo"
        namespace = "urn:x"

    star: Optional[Animal] = field(default=None, metadata={"type": "Element"})
    animal: list[Animal] = field(default_factory=list, metadata={"type": "Element"})
    thing: Optional[object] = field(default=None, metadata={"type": "Element"})
    things: list[object] = field(default_factory=list, metadata={"type": "Element", "name": "t"})


@dataclass
class Unrelated(metaclass=StableHashMeta):
    class Meta:
        name = "unrelated"
        namespace = "urn:x"

    name: str = field(default="", metadata={"type": "Element"})
    only_here: Optional[str] = field(default=None, metadata={"type": "Element"})


@dataclass
class Kennel(metaclass=StableHashMeta):
    """Same element names as Zoo, but typed with the derived class: no xsi:type is needed here."""

    class Meta:
        name = "kennel"
        namespace = "urn:x"

    star: Optional[Dog] = field(default=None, metadata={"type": "Element"})
    animal: list[Dog] = field(default_factory=list, metadata={"type": "Element"})
    thing: Optional[Cat] = field(default=None, metadata={"type": "Element"})
