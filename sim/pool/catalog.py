"""Pool catalogue: instances and hand-written documents (harness data)."""
from datetime import date as _date
from decimal import Decimal
from xml.etree.ElementTree import QName

from xsdata.formats.dataclass.models.generics import AnyElement, DerivedElement
from xsdata.models.datatype import XmlDate, XmlDateTime, XmlDuration, XmlPeriod, XmlTime

from sim.pool import (
    m_basic as mb,
    m_compound as mc,
    m_edge as me,
    m_ns as mn,
    m_same1 as s1,
    m_same2 as s2,
    m_wild as mw,
    m_xsi as mx,
)

LATE = {"L1": "sim.pool.m_late1", "L2": "sim.pool.m_late2", "L3": "sim.pool.m_conv"}
# L3 defines no models: it registers a converter. Calls about these classes give another result once it is imported;
# every other call is taken to be unaffected by it (its reference is the one without L3).
L3_SENSITIVE = {"m_edge.Stocked", "m_edge.Painted"}

import sys as _sys


class _LateModule:
    """Attribute access resolves against the late module once an import event has loaded it."""

    def __init__(self, name):
        self._name = name

    def __getattr__(self, item):
        return getattr(_sys.modules[self._name], item)


l1 = _LateModule("sim.pool.m_late1")
l2 = _LateModule("sim.pool.m_late2")
LATE_CLASSES = {
    "m_late1.Bird": "L1",
    "m_late1.LateRoot": "L1",
    "m_late2.LateTwo": "L2",
}

CLASSES = {}
for _m in (mb, mc, me, mn, s1, s2, mw, mx):
    _short = _m.__name__.rsplit(".", 1)[1]
    for _n, _c in vars(_m).items():
        if isinstance(_c, type) and getattr(_c, "__module__", None) == _m.__name__:
            CLASSES[f"{_short}.{_n}"] = _c



def resolve_class(key):
    if key in CLASSES:
        return CLASSES[key]
    mod, name = key.split(".")
    return getattr(_sys.modules["sim.pool." + mod], name)


def _item(i=1, rich=True):
    if not rich:
        return mb.Item(id=i, name=f"plain{i}")
    return mb.Item(
        id=i,
        code="c-%d" % i,
        lang="el",
        name="thing <&> %d" % i,
        price=Decimal("12.50"),
        qty=3,
        flag=True,
        ratio=1.5,
        tags=["a", "b", "c"],
        kind=mb.Kind.LARGE,
        level=mb.Level.TWO,
        when=XmlDate(2024, 2, 29),
        stamp=XmlDateTime(2024, 2, 29, 23, 59, 58, 120000000, 120),
        at=XmlTime(1, 2, 3),
        took=XmlDuration("P1Y2M3DT4H5M6.7S"),
        data=b"\x00\x01binary",
        hexdata=b"\xde\xad\xbe\xef",
        note=None,
        ref=QName("urn:refs", "target"),
        refattr=QName("urn:basic", "item"),
    )


def _rnode(depth):
    node = mc.RNode(value=depth)
    for i in range(depth - 1, 0, -1):
        node = mc.RNode(value=i, child=node)
    return node


# name -> (factory, class key)
OBJS = {
    "item_rich": (lambda: _item(1), "m_basic.Item"),
    "item_plain": (lambda: _item(2, False), "m_basic.Item"),
    "order": (
        lambda: mb.Order(number=7, item=[_item(1), _item(2, False)], comment="hello", extra={"{urn:e}k": "v", "plain": "w"}),
        "m_basic.Order",
    ),
    "fault_v1": (lambda: mb.Fault(code=mb.FaultCode.V1_SENDER, sub=[mb.FaultCode.V1_RECEIVER, mb.FaultCode.V2_SENDER], attr_code=mb.FaultCode.V2_SENDER), "m_basic.Fault"),
    "fault_v2": (lambda: mb.Fault(code=mb.FaultCode.V2_SENDER), "m_basic.Fault"),
    "formats": (lambda: mb.Formats(b64=b"\x00\x10\x83", b16=b"\xab\xcd", dmy=_date(2020, 2, 1), mdy=_date(2020, 1, 2), plain=XmlDate(2020, 1, 2)), "m_basic.Formats"),
    "edge": (
        lambda: mb.Edge(ints=[1, -2, 3], levels=[mb.Level.ONE, mb.Level.TWO], notes=["a", None, "c"], year=XmlPeriod("2020"), month_day=XmlPeriod("--02-29"),
                        inner=mb.Edge.Inner(v=1, w=["x", "y"]), inners=[mb.Edge.Inner(v=2), mb.Edge.Inner(w=["z"])], uri="http://x/y?z=1", big=10**30, flt=float("inf"), dec=Decimal("1E+2")),
        "m_basic.Edge",
    ),
    "price": (lambda: mb.Price(value=Decimal("9.99"), currency="USD"), "m_basic.Price"),
    "catalog": (
        lambda: mb.Catalog(
            price=[mb.Price(Decimal("1")), mb.Price(Decimal("2.5"), "GBP")],
            numbers=[1, 2, 3],
            dates=[XmlDate(2020, 1, 1), XmlDate(1999, 12, 31)],
            updated=XmlDateTime(2020, 1, 1, 0, 0, 0),
        ),
        "m_basic.Catalog",
    ),
    "point": (lambda: mb.Point(x=1, y=-2, labels=("p", "q")), "m_basic.Point"),
    "shouty": (lambda: mb.Shouty(first_value="loud", second=5), "m_basic.Shouty"),
    "parentA": (
        lambda: mn.ParentA(child=mn.Child(x="ax", y=1), mid=mn.Mid(leaf=mn.Leaf(v="lv", n=4), label="ml"), title="ta"),
        "m_ns.ParentA",
    ),
    "parentB": (
        lambda: mn.ParentB(child=mn.Child(x="bx", y=2), mid=mn.Mid(leaf=mn.Leaf(v="lw", n=5), label="mm"), title="tb"),
        "m_ns.ParentB",
    ),
    "parentN": (
        lambda: mn.ParentN(child=mn.Child(x="nx", y=3), mid=mn.Mid(leaf=mn.Leaf(v="lx"), label="mn")),
        "m_ns.ParentN",
    ),
    "wrapA": (lambda: mn.WrapA(kids=[mn.Child(x="k1"), mn.Child(x="k2", y=9)]), "m_ns.WrapA"),
    "wrapB": (lambda: mn.WrapB(kids=[mn.Child(x="k3"), mn.Child(x="k4", y=8)]), "m_ns.WrapB"),
    "treeA": (
        lambda: mn.TreeA(node=mn.Node(name="r", node=[mn.Node(name="c1"), mn.Node(name="c2", node=[mn.Node(name="g")])])),
        "m_ns.TreeA",
    ),
    "treeB": (
        lambda: mn.TreeB(node=mn.Node(name="r", node=[mn.Node(name="d1", node=[mn.Node(name="h")])])),
        "m_ns.TreeB",
    ),
    "child_alone": (lambda: mn.Child(x="solo", y=0), "m_ns.Child"),
    "holderA": (lambda: mn.HolderA(sub=mn.SubNs(base_field="bf", label="la", code=1), subs=[mn.SubNs(label="l2")]), "m_ns.HolderA"),
    "holderB": (lambda: mn.HolderB(sub=mn.SubNs(base_field="bg", label="lb", code=2), subs=[mn.SubNs(label="l3")]), "m_ns.HolderB"),
    "pickA_u1": (lambda: mn.PickA(pick=mn.U1(a=1)), "m_ns.PickA"),
    "pickA_u2": (lambda: mn.PickA(pick=mn.U2(b="x")), "m_ns.PickA"),
    "pickB_u1": (lambda: mn.PickB(pick=mn.U1(a=2)), "m_ns.PickB"),
    "pickB_u2": (lambda: mn.PickB(pick=mn.U2(b="y")), "m_ns.PickB"),
    "thing1": (lambda: s1.Thing(alpha="A", size=3), "m_same1.Thing"),
    "thing2": (lambda: s2.Thing(beta="B", size="big"), "m_same2.Thing"),
    "drawing1": (lambda: s1.Drawing1(shape=s1.Circle(label="c1", r=2)), "m_same1.Drawing1"),
    "drawing2": (lambda: s2.Drawing2(shape=s2.Circle(label="c2", radius=2.5)), "m_same2.Drawing2"),
    "dup1": (lambda: s1.Dup(first="one"), "m_same1.Dup"),
    "dup2": (lambda: s2.Dup(first="two", second=2), "m_same2.Dup"),
    "zoo": (
        lambda: mx.Zoo(
            star=mx.Dog(name="rex", bark=3),
            animal=[mx.Animal(name="generic"), mx.Cat(name="tom", lives=7), mx.Dog(name="fido")],
            thing=mx.Cat(name="any"),
            things=[1, "two", 3.5, True, mx.Dog(name="obj")],
        ),
        "m_xsi.Zoo",
    ),
    "kennel": (lambda: mx.Kennel(star=mx.Dog(name="rex", bark=3), animal=[mx.Dog(name="fido")], thing=mx.Cat(name="any")), "m_xsi.Kennel"),
    "zoo_dogs": (lambda: mx.Zoo(star=mx.Dog(name="rex", bark=3), animal=[mx.Dog(name="fido")], thing=mx.Cat(name="any")), "m_xsi.Zoo"),
    "pets": (lambda: mx.Pets(items=[mx.Dog(name="d", bark=1), mx.Cat(name="c", lives=2), mx.Animal(name="a")]), "m_xsi.Pets"),
    "pets_cat": (lambda: mx.Pets(items=[mx.Cat(name="only")]), "m_xsi.Pets"),
    "zoo_money": (lambda: mx.Zoo(thing=mx.Money("1.50")), "m_xsi.Zoo"),
    "till": (lambda: mx.Till(amount=mx.Money("2.25")), "m_xsi.Till"),
    "zoo_any_true": (lambda: mx.Zoo(thing=True, things=[True]), "m_xsi.Zoo"),
    "zoo_any_float1": (lambda: mx.Zoo(thing=1.0, things=[1.0, 0.0]), "m_xsi.Zoo"),
    "zoo_any_dec1": (lambda: mx.Zoo(thing=Decimal("1"), things=[Decimal("0")]), "m_xsi.Zoo"),
    "zoo_any_false": (lambda: mx.Zoo(thing=False, things=[0, 1]), "m_xsi.Zoo"),
    "zoo_prims": (lambda: mx.Zoo(thing=Decimal("1.25"), things=[XmlDate(2001, 1, 1), QName("urn:x", "q")]), "m_xsi.Zoo"),
    "derived_dog": (lambda: DerivedElement(qname="{urn:x}animal", value=mx.Dog(name="der", bark=1), type="{urn:x}dog"), "m_xsi.Animal"),
    "anybox": (
        lambda: mw.AnyBox(
            head="h",
            any_el=[
                AnyElement(qname="{urn:z}free", text="t", attributes={"{urn:z}a": "1", "b": "{urn:q}val"}, children=[AnyElement(qname="inner", text="i", tail="tl")]),
                mw.Bold(value="strong"),
                mx.Dog(name="wilddog"),
            ],
        ),
        "m_wild.AnyBox",
    ),
    "otherbox": (
        lambda: mw.OtherBox(head="h", other=[AnyElement(qname="{urn:o}x", text="1"), mx.Cat(name="c")], attrs={"{urn:o}k": "v"}),
        "m_wild.OtherBox",
    ),
    "localbox": (
        lambda: mw.LocalBox(local=AnyElement(qname="loc", text="l"), target=[AnyElement(qname="{urn:w}t1", text="1"), mw.Bold(value="b")]),
        "m_wild.LocalBox",
    ),
    "twowild": (
        lambda: mw.TwoWild(mine=[AnyElement(qname="{urn:w}m", text="1"), AnyElement(qname="l", text="2")], rest=[AnyElement(qname="{urn:r}r", text="3")]),
        "m_wild.TwoWild",
    ),
    "para": (
        lambda: mw.Para(content=["lead ", mw.Bold(value="bold"), " mid ", AnyElement(qname="{urn:z}i", text="it", tail=" end")], style="s"),
        "m_wild.Para",
    ),
    "choice": (
        lambda: mc.Choice(items=[mc.Alpha(a=1, text="x"), 5, mc.Bravo(b="bb", num=2), "w", 6]),
        "m_compound.Choice",
    ),
    "prim": (lambda: mc.Prim(num=1.5, opt=Decimal("2.50"), many=[1, "a", 2]), "m_compound.Prim"),
    "prim_str": (lambda: mc.Prim(num="notnum", opt=True, many=[]), "m_compound.Prim"),
    "either_a": (lambda: mc.EitherWay(pick=mc.Alpha(a=3, text="t"), label="la"), "m_compound.EitherWay"),
    "either_b": (lambda: mc.EitherWay(pick=mc.Bravo(b="q", num=4), label="lb"), "m_compound.EitherWay"),
    "seq": (lambda: mc.Seq(a=[1, 2, 3], b=["x", "y"], tail="z"), "m_compound.Seq"),
    "wrapped": (lambda: mc.Wrapped(nums=[1, 2], alphas=[mc.Alpha(a=1), mc.Alpha(text="t")]), "m_compound.Wrapped"),
    "rnode_deep": (lambda: _rnode(14), "m_compound.RNode"),
    "rnode_other": (lambda: mc.RNode(value=1, child=mc.RNode(value=2, child=mc.ROther(label="end"))), "m_compound.RNode"),
    "fwd": (lambda: mc.Fwd(nxt=mc.FwdTarget(v=3)), "m_compound.Fwd"),
    "bird": (lambda: l1.Bird(name="tweety", wingspan=0.25), "m_late1.Bird"),
    "zoo_bird": (lambda: mx.Zoo(star=l1.Bird(name="late", wingspan=1.0), animal=[l1.Bird(name="b2")]), "m_xsi.Zoo"),
    "lateroot": (lambda: l1.LateRoot(late_one_field="f", late_one_count=2), "m_late1.LateRoot"),
    "latetwo": (lambda: l2.LateTwo(late_two_field="g", late_two_flag=True), "m_late2.LateTwo"),
    "nillist": (lambda: me.NilList(values=[1, None, 3], names=["a", None, ""], opt=None, total=3), "m_edge.NilList"),
    "nillist_empty": (lambda: me.NilList(), "m_edge.NilList"),
    "skipbox": (
        lambda: me.SkipBox(head="h", skipped=[AnyElement(qname="{urn:o}raw", text="t", children=[AnyElement(qname="{urn:e}tokens", text="x")])], strict=[me.GlobalThing(w=1), AnyElement(qname="loc", text="l")]),
        "m_edge.SkipBox",
    ),
    "slotted": (lambda: me.Slotted(id=1, v=["a", "b"], kid=me.Slotted(id=2, v=[], kid=me.Slotted(id=3))), "m_edge.Slotted"),
    "holder": (
        lambda: me.Holder(local=me.LocalThing(v="lv"), thing=me.GlobalThing(w=2), anything=me.GlobalThing(w=3), more=[1, "s", me.Slotted(id=9), AnyElement(qname="{urn:e}more", text="m")]),
        "m_edge.Holder",
    ),
    "holder_prims": (lambda: me.Holder(anything=5, more=[True, 1.5]), "m_edge.Holder"),
    "localthing": (lambda: me.LocalThing(v="only"), "m_edge.LocalThing"),
    "tokens": (
        lambda: me.Tokens(colors=[me.Color.RED, me.Color.BLUE], rows=[[me.Code.A, me.Code.B], [], [me.Code.C]], color_attr=[me.Color.GREEN], ids=["i1", "i2", "i1"], one=me.Color.RED, code_or_color=me.Code.C, req="r"),
        "m_edge.Tokens",
    ),
    "tokens_color": (lambda: me.Tokens(code_or_color=me.Color.GREEN, req=""), "m_edge.Tokens"),
    "blobs": (lambda: me.Blobs(blob=b"hello", hexes=[b"\x01\x02", b""], num_or_hex=b"\xab\xcd", key=b"k", value=b"\xff"), "m_edge.Blobs"),
    "blobs_num": (lambda: me.Blobs(num_or_hex=12), "m_edge.Blobs"),
    "rated": (lambda: me.Rated(rate=me.Rate.LOW, rates=[me.Rate.HIGH, me.Rate.NONE], amount=Decimal("12.50")), "m_edge.Rated"),
    "onewild_obj": (lambda: me.OneWild(head="h", single=me.GlobalThing(w=1), tail=2), "m_edge.OneWild"),
    "onewild_any": (lambda: me.OneWild(single=AnyElement(qname="{urn:o}free", text="t", attributes={"a": "1"})), "m_edge.OneWild"),
    "onewild_derived": (lambda: me.OneWild(single=DerivedElement(qname="{urn:e}other", value=me.Slotted(id=4), type="{urn:e}slotted")), "m_edge.OneWild"),
    "wildchoice": (
        lambda: me.WildChoice(items=[me.GlobalThing(w=1), 5, me.Color.RED, AnyElement(qname="{urn:o}free", text="f"), DerivedElement(qname="{urn:e}n", value=7), DerivedElement(qname="{urn:o}slot", value=me.Slotted(id=1), type="{urn:e}slotted")], label="l"),
        "m_edge.WildChoice",
    ),
    "owner": (lambda: me.Owner(pet=me.HouseDog(name="d", collar=me.Collar(color="blue"), bark=1), others=[me.HouseCat(name="c", lives=9), me.Pet(name="p", collar=me.Collar())]), "m_edge.Owner"),
    "stamped": (lambda: me.Stamped(release=me.Release.SECOND, days=[me.Day.D1, me.Day.D2]), "m_edge.Stamped"),
    "group": (lambda: me.Group(name="a", child=me.Folder(name="b", child=me.Group(name="c"))), "m_edge.Group"),
    "chain": (lambda: me.Chain(label="a", next=me.BoldChain(label="b", next=me.Chain(label="c"))), "m_edge.Chain"),
    "mixedmoney": (lambda: me.MixedMoney(content=["costs ", AnyElement(qname="{urn:e}amount", text="1.50"), " or ", AnyElement(qname="{urn:e}count", text="3", tail=" pieces")]), "m_edge.MixedMoney"),
    "measure_int_str": (lambda: me.Measure(items=["1"]), "m_edge.Measure"),
    "measure_float_str": (lambda: me.Measure(items=["1.5"]), "m_edge.Measure"),
    "measure_date_str": (lambda: me.Measure(items=["2024-02-29"]), "m_edge.Measure"),
    "measure_dec_str": (lambda: me.Measure(items=["10.50", "x"]), "m_edge.Measure"),
    "measure_typed": (lambda: me.Measure(items=[1, 1.5, XmlDate(2020, 2, 29), Decimal("2.50")]), "m_edge.Measure"),
    "invoice_v1": (lambda: me.InvoiceV1(number="A-1", total=Decimal("10.00")), "m_edge.InvoiceV1"),
    "invoice_v2": (lambda: me.InvoiceV2(number="B-2", total=Decimal("20.00")), "m_edge.InvoiceV2"),
    "invoice_none": (lambda: me.InvoiceNone(number="C-3"), "m_edge.InvoiceNone"),
    "stocked": (lambda: me.Stocked(sku=me.Sku("AB-1"), alt=me.Sku("CD-2"), qty=3), "m_edge.Stocked"),
    "house1": (lambda: s1.House(street=s1.Street(name="a", number=1), streets=[s1.Street(name="b")], owner="o"), "m_same1.House"),
    "house2": (lambda: s2.House(street=s2.Street(name="a", zip_code="z"), streets=[s2.Street(name="b", zip_code="y")], owner="o"), "m_same2.House"),
    "orderline": (lambda: me.OrderLine(line_no=1, unit_price=Decimal("3.50"), order_items=["a", "b"]), "m_edge.OrderLine"),
    "painted": (lambda: me.Painted(shade=me.Shade.RED, shades=[me.Shade.GREEN, me.Shade.RED]), "m_edge.Painted"),
    "attrmix": (lambda: me.AttrMix(id="i", lang="en", space="preserve", qualified=4, rest={"{urn:o}x": "1", "plain": "p"}, value=7), "m_edge.AttrMix"),
}
# objects whose annotations resolve only with SerializerConfig.globalns: serialized with that configuration only
OBJS_GLOBALNS = {
    "needsglobals": (lambda: me.NeedsGlobals(hidden_part=me._HiddenPart(v=1), hidden_parts=[me._HiddenPart(v=2), me._HiddenPart()], hidden_label="l"), "m_edge.NeedsGlobals"),
}
# classes that only work with SerializerConfig.globalns: never a parse target, never named by a fault
SERIALIZE_ONLY = {"m_edge.NeedsGlobals"}
# objects also handled by tools of the callers' second context (other name generators): name -> (factory, class key, a document in that context's names)
OBJS_NAMEGEN = {
    "orderline": (lambda: me.OrderLine(line_no=1, unit_price=Decimal("3.50"), order_items=["a", "b"]), "m_edge.OrderLine", b'<orderLine line-no="1"><unitPrice>3.50</unitPrice><orderItems>a</orderItems></orderLine>'),
    "appsettings1": (lambda: me.AppSettings1(settings_one_name="n"), "m_edge.AppSettings1", b"<Settings1><settingsOneName>n</settingsOneName></Settings1>"),
    "stamped": (lambda: me.Stamped(release=me.Release.FIRST), "m_edge.Stamped", b'<stamped xmlns="urn:e" at="2020-01-01T00:00:00"><release>2020-01-01T00:00:00</release><opens>09:00:00</opens></stamped>'),
}
OBJS_GLOBALNS2 = {
    "needsglobals2": (lambda: me.NeedsGlobals(hidden_part=me._HiddenPart2(w="x"), hidden_parts=[me._HiddenPart2(w="y")], hidden_label="l2"), "m_edge.NeedsGlobals"),
}
# late modules an object needs registered before it can be touched
OBJ_NEEDS = {"bird": "L1", "zoo_bird": "L1", "lateroot": "L1", "latetwo": "L2"}

# hand-written documents: name -> (bytes, class key or None, needs)
XML = {}


def _x(name, clazz, text, needs=None):
    XML[name] = (text.strip().encode(), clazz, needs)


_x("hw_item", "m_basic.Item", """
<?xml version="1.0" encoding="UTF-8"?>
<b:item xmlns:b="urn:basic" xmlns:r="urn:refs" id="10" code="zz" xml:lang="fr" level="1" refattr="b:item" version="1.0">
  <!-- a comment -->
  <b:name>caf&#233; &amp; <![CDATA[<raw>]]></b:name>
  <b:price>  3.1400 </b:price>
  <b:qty>+4</b:qty>
  <b:flag>1</b:flag>
  <b:ratio>-INF</b:ratio>
  <b:tags>x  y
   z</b:tags>
  <b:kind>other one</b:kind>
  <b:when>2020-02-29Z</b:when>
  <b:stamp>2001-10-26T21:32:52.126+02:00</b:stamp>
  <b:at>13:20:00-05:00</b:at>
  <b:took>-P1DT2H</b:took>
  <b:data>AAEC</b:data>
  <b:hexdata>0aFF</b:hexdata>
  <b:note xmlns:xsi="http://www.w3.org/2001/XMLSchema-instance" xsi:nil="true"/>
  <b:ref>r:somewhere</b:ref>
</b:item>""")
_x("hw_item_defaultns", "m_basic.Item", """
<item xmlns="urn:basic" id="11"><name>n</name><qty>2</qty><ref xmlns:p="urn:p1">p:one</ref></item>""")
# the same prefix bound to different URIs in one document, used by QName values
_x("hw_order_prefix_rebind", "m_basic.Order", """
<o:order xmlns:o="urn:basic" number="1" xmlns:e="urn:e" e:k="v">
  <o:item id="1" xmlns:p="urn:p1" refattr="p:a"><o:name>a</o:name><o:ref>p:first</o:ref></o:item>
  <o:item id="2" xmlns:p="urn:p2" refattr="p:a"><o:name>b</o:name><o:ref>p:second</o:ref></o:item>
  <o:comment>c</o:comment>
</o:order>""")
_x("hw_order_other_prefix", "m_basic.Order", """
<p:order xmlns:p="urn:basic" number="2"><p:item id="3" xmlns:o="urn:p3" refattr="o:x"><p:name>c</p:name><p:ref>o:third</p:ref></p:item></p:order>""")
_x("hw_fault_c_v1", "m_basic.Fault", """<fault xmlns="urn:basic" xmlns:c="urn:fault:v1" attr_code="c:Receiver"><code>c:Sender</code><sub>c:Receiver</sub></fault>""")
_x("hw_fault_c_v2", "m_basic.Fault", """<fault xmlns="urn:basic" xmlns:c="urn:fault:v2" attr_code="c:Sender"><code>c:Sender</code></fault>""")
_x("hw_fault_c_unknown", "m_basic.Fault", """<fault xmlns="urn:basic" xmlns:c="urn:fault:v9"><code>c:Sender</code></fault>""")
_x("hw_fault_rebind", "m_basic.Fault", """<fault xmlns="urn:basic" xmlns:c="urn:fault:v2"><code>c:Sender</code><sub xmlns:c="urn:fault:v1">c:Sender</sub><sub>c:Sender</sub></fault>""")
_x("hw_formats_same_lexical", "m_basic.Formats", """<formats xmlns="urn:basic"><b64>ABCD</b64><b16>ABCD</b16><dmy>01/02/2020</dmy><mdy>01/02/2020</mdy><plain>2020-01-02</plain></formats>""")
_x("hw_edge", "m_basic.Edge", """
<edge xmlns="urn:basic" xmlns:xsi="http://www.w3.org/2001/XMLSchema-instance" levels="1 2  1" month_day="--12-31" fixed_float="NaN" uri=" http://a/b " dec="-0.0">
  <ints> 1 2
 3 </ints><notes>n1</notes><notes xsi:nil="true"/><notes/><year>-0044</year>
  <inner v="7"><w>a</w><w/></inner><in/><in v="8"><w>b</w></in><fixed_text>keep</fixed_text><big>-123456789012345678901234567890</big><flt>1e400</flt>
</edge>""")
_x("hw_catalog", "m_basic.Catalog", """
<catalog xmlns="urn:basic" updated="2020-01-01T00:00:00"><price currency="JPY">100</price><price>0.5</price><n>1</n><n>-2</n><d>2020-01-01</d></catalog>""")
_x("hw_point", "m_basic.Point", """<point xmlns="urn:basic" x="3" y="4"><label>a</label><label>b</label></point>""")
_x("hw_shouty", "m_basic.Shouty", """<SHOUTY xmlns="urn:basic" a-second="2"><FIRST_VALUE>v</FIRST_VALUE></SHOUTY>""")
_x("hw_parentA", "m_ns.ParentA", """
<a:parentA xmlns:a="urn:a"><a:child><a:x>1</a:x><a:y>2</a:y></a:child><a:mid><a:leaf n="1"><a:v>q</a:v></a:leaf><a:label>l</a:label></a:mid><a:title>t</a:title></a:parentA>""")
_x("hw_parentB", "m_ns.ParentB", """
<parentB xmlns="urn:b"><child><x>1</x><y>2</y></child><mid><leaf n="1"><v>q</v></leaf><label>l</label></mid><title>t</title></parentB>""")
_x("hw_parentN", "m_ns.ParentN", """<parentN><child><x>1</x></child><mid><leaf><v>q</v></leaf><label>l</label></mid></parentN>""")
_x("hw_wrapA", "m_ns.WrapA", """<wrapA xmlns="urn:a"><kids><kid><x>1</x></kid><kid><x>2</x><y>5</y></kid></kids></wrapA>""")
_x("hw_wrapB", "m_ns.WrapB", """<w:wrapB xmlns:w="urn:b"><w:kids><w:kid><w:x>1</w:x></w:kid></w:kids></w:wrapB>""")
_x("hw_treeA", "m_ns.TreeA", """<treeA xmlns="urn:a"><node name="r"><node name="c"><node name="g"/></node><node name="d"/></node></treeA>""")
_x("hw_treeB", "m_ns.TreeB", """<treeB xmlns="urn:b"><node name="r"><node name="c"/></node></treeB>""")
_x("hw_child_alone", "m_ns.Child", """<Child><x>solo</x><y>1</y></Child>""")
_x("hw_holderA", "m_ns.HolderA", """<holderA xmlns="urn:a" xmlns:b="urn:base"><sub code="1"><b:base_field>f</b:base_field><label>l</label></sub><s><label>m</label></s></holderA>""")
_x("hw_holderB", "m_ns.HolderB", """<h:holderB xmlns:h="urn:b" xmlns:b="urn:base"><h:sub code="2"><b:base_field>g</b:base_field><h:label>l</h:label></h:sub></h:holderB>""")
_x("hw_pickA", "m_ns.PickA", """<pickA xmlns="urn:a"><pick><b>x</b></pick></pickA>""")
_x("hw_pickB", "m_ns.PickB", """<pickB xmlns="urn:b"><pick><a>3</a></pick></pickB>""")
# values that look like prefixed names but whose prefix is NOT declared in this document
# (other pool documents bind p, r, o, e, z): well-formed, the value stays a plain string
_x("hw_item_undeclared_p", "m_basic.Item", """<item xmlns="urn:basic" id="12" refattr="p:zz"><name>n</name><ref>p:first</ref></item>""")
_x("hw_item_undeclared_r", "m_basic.Item", """<b:item xmlns:b="urn:basic" id="13" refattr="o:zz"><b:name>n</b:name><b:ref>r:somewhere</b:ref></b:item>""")
_x("hw_order_undeclared", "m_basic.Order", """<order xmlns="urn:basic" number="9" plain="e:val"><item id="1" refattr="p:a"><name>a</name></item></order>""")
_x("hw_anybox_undeclared", "m_wild.AnyBox", """<w:anyBox xmlns:w="urn:w"><w:head>h</w:head><free b="z:val" c="x:dog">text</free></w:anyBox>""")
_x("hw_thing1", "m_same1.Thing", """<thing xmlns="urn:s1" size="4"><alpha>A</alpha></thing>""")
_x("hw_thing2", "m_same2.Thing", """<thing xmlns="urn:s2" size="L"><beta>B</beta></thing>""")
_x("hw_drawing1", "m_same1.Drawing1", """<drawing1 xmlns="urn:shapes" xmlns:xsi="http://www.w3.org/2001/XMLSchema-instance"><shape xsi:type="circle"><label>a</label><r>1</r></shape></drawing1>""")
_x("hw_drawing2", "m_same2.Drawing2", """<drawing2 xmlns="urn:shapes" xmlns:xsi="http://www.w3.org/2001/XMLSchema-instance"><shape xsi:type="circle"><label>b</label><radius>1.5</radius></shape></drawing2>""")
_x("hw_dup_noclass", None, """<dup xmlns="urn:dup"><first>f</first><second>2</second></dup>""")
_x("hw_thing1_noclass", None, """<thing xmlns="urn:s1" size="4"><alpha>A</alpha></thing>""")
_x("hw_thing2_noclass", None, """<thing xmlns="urn:s2"><beta>B</beta></thing>""")
_x("hw_zoo", "m_xsi.Zoo", """
<zoo xmlns="urn:x" xmlns:xsi="http://www.w3.org/2001/XMLSchema-instance" xmlns:xs="http://www.w3.org/2001/XMLSchema">
  <star xsi:type="dog"><name>rex</name><bark>2</bark></star>
  <animal><name>plain</name></animal>
  <animal xsi:type="cat" lives="3"><name>tom</name></animal>
  <thing xsi:type="xs:int">42</thing>
  <t xsi:type="xs:date">2001-01-01</t>
  <t xsi:type="xs:QName">xs:string</t>
  <t xsi:type="dog"><name>asany</name></t>
  <t>untyped text</t>
</zoo>""")
_x("hw_zoo_prefixed_xsi", "m_xsi.Zoo", """
<z:zoo xmlns:z="urn:x" xmlns:i="http://www.w3.org/2001/XMLSchema-instance"><z:star i:type="z:cat" lives="1"><z:name>c</z:name></z:star></z:zoo>""")
_x("hw_kennel", "m_xsi.Kennel", """<kennel xmlns="urn:x"><star><name>rex</name><bark>2</bark></star><animal><name>a</name></animal><thing lives="2"><name>c</name></thing></kennel>""")
_x("hw_pets", "m_xsi.Pets", """<pets xmlns="urn:x"><dog><name>d</name></dog><animal><name>a</name></animal><cat lives="1"><name>c</name></cat></pets>""")
_x("hw_till", "m_xsi.Till", """<till xmlns="urn:x"><amount>3.75</amount></till>""")
_x("hw_zoo_noclass", None, """<zoo xmlns="urn:x"><animal><name>n</name></animal></zoo>""")
_x("hw_dog_root_noclass", None, """<dog xmlns="urn:x"><name>d</name><bark>1</bark></dog>""")
_x("hw_animal_root_xsi", "m_xsi.Animal", """
<animal xmlns="urn:x" xmlns:xsi="http://www.w3.org/2001/XMLSchema-instance" xsi:type="dog"><name>d</name><bark>1</bark></animal>""")
_x("hw_anyroot_xsi_noclass", None, """
<whatever xmlns:x="urn:x" xmlns:xsi="http://www.w3.org/2001/XMLSchema-instance" xsi:type="x:cat" lives="2"><x:name>w</x:name></whatever>""")
_x("hw_zoo_bird", "m_xsi.Zoo", """
<zoo xmlns="urn:x" xmlns:l="urn:late1" xmlns:xsi="http://www.w3.org/2001/XMLSchema-instance"><star xsi:type="l:bird"><name>b</name><l:wingspan>2.5</l:wingspan></star></zoo>""", "L1")
_x("hw_lateroot_noclass", None, """<lateRoot xmlns="urn:late1" late_one_count="3"><late_one_field>x</late_one_field></lateRoot>""", "L1")
_x("hw_latetwo_noclass", None, """<lateTwo xmlns="urn:late2" late_two_flag="false"><late_two_field>y</late_two_field></lateTwo>""", "L2")
_x("hw_anybox", "m_wild.AnyBox", """
<w:anyBox xmlns:w="urn:w" xmlns:z="urn:z" xmlns:x="urn:x">
  <w:head>h</w:head>
  <z:free z:a="1" b="z:val">text<inner>i</inner>tail</z:free>
  <w:b>bold</w:b>
  <x:dog><x:name>d</x:name></x:dog>
  <plain/>
</w:anyBox>""")
_x("hw_otherbox", "m_wild.OtherBox", """
<otherBox xmlns="urn:w" xmlns:o="urn:o" o:k="v"><head>h</head><o:x>1</o:x><o:y a="b"/></otherBox>""")
_x("hw_localbox", "m_wild.LocalBox", """
<w:localBox xmlns:w="urn:w"><loc>l</loc><w:t1>1</w:t1><w:b>x</w:b></w:localBox>""")
_x("hw_twowild", "m_wild.TwoWild", """
<w:twoWild xmlns:w="urn:w" xmlns:r="urn:r"><w:m>1</w:m><l>2</l><r:r>3</r:r><w:m>4</w:m><r:s/></w:twoWild>""")
# the same local names under other namespaces: a memo keyed by local name would send them to the wrong wildcard
_x("hw_twowild_swapped", "m_wild.TwoWild", """
<w:twoWild xmlns:w="urn:w" xmlns:r="urn:r"><r:m>1</r:m><w:l>2</w:l><w:r>3</w:r><m>4</m><w:s/></w:twoWild>""")
_x("hw_otherbox_b", "m_wild.OtherBox", """
<otherBox xmlns="urn:w" xmlns:p="urn:p9" p:k="v"><head>h</head><p:x>1</p:x><p:head>2</p:head></otherBox>""")
_x("hw_para", "m_wild.Para", """<p xmlns="urn:w" style="s">lead <b>bold</b> mid <i xmlns="urn:z">it</i> end</p>""")
_x("hw_choice", "m_compound.Choice", """
<choice xmlns="urn:c" xmlns:d="urn:c2"><alpha a="1"><text>x</text></alpha><count>5</count><bravo b="b"><num>2</num></bravo><d:word>w</d:word><count>6</count></choice>""")
_x("hw_prim", "m_compound.Prim", """<prim xmlns="urn:c" opt="true"><num>1e3</num><many>1</many><many>x</many></prim>""")
_x("hw_either_a", "m_compound.EitherWay", """<either xmlns="urn:c"><pick a="3"><text>t</text></pick><label>l</label></either>""")
_x("hw_either_b", "m_compound.EitherWay", """<either xmlns="urn:c"><pick b="q"><num>4</num></pick><label>l</label></either>""")
_x("hw_seq", "m_compound.Seq", """<seq xmlns="urn:c"><a>1</a><b>x</b><a>2</a><b>y</b><a>3</a><tail>z</tail></seq>""")
_x("hw_wrapped", "m_compound.Wrapped", """<wrapped xmlns="urn:c"><nums><num>1</num><num>2</num></nums><alphas><alpha a="1"><text/></alpha></alphas></wrapped>""")
_x("hw_fwd", "m_compound.Fwd", """<fwd xmlns="urn:c"><nxt v="3"/></fwd>""")
XML["hw_latin1"] = ('<?xml version="1.0" encoding="ISO-8859-1"?><price xmlns="urn:basic" currency="\u00a3">5</price>'.encode("latin-1"), "m_basic.Price", None)

# less common model features and XML constructs
_x("hw_nillist", "m_edge.NilList", """<e:nilList xmlns:e="urn:e" xmlns:xsi="http://www.w3.org/2001/XMLSchema-instance" total="4"><e:value>1</e:value><e:value xsi:nil="true"/><e:value xsi:nil="false">3</e:value><e:value xsi:nil="1"></e:value><e:name/><e:name xsi:nil="true"/><e:name xsi:nil="0">n</e:name><e:opt xsi:nil="true"/></e:nilList>""")
_x("hw_skipbox", "m_edge.SkipBox", """<skipBox xmlns="urn:e"><head>h</head><o:raw xmlns:o="urn:o" a="1">t<tokens req="zz"><colors>purple</colors></tokens><o:in/>tail</o:raw><thing><w>1</w></thing><loc xmlns="">l</loc><o:dog xmlns:o="urn:x"><o:name>not bound</o:name></o:dog></skipBox>""")
_x("hw_slotted", "m_edge.Slotted", """<s:slotted xmlns:s="urn:e" id="1"><s:v>a</s:v><s:kid id="2"><s:v/><s:kid id="3"/></s:kid></s:slotted>""")
_x("hw_holder", "m_edge.Holder", """<holder xmlns="urn:e" xmlns:xsi="http://www.w3.org/2001/XMLSchema-instance" xmlns:xs="http://www.w3.org/2001/XMLSchema"><local><v>lv</v></local><thing><w>2</w></thing><anything xsi:type="thing"><w>3</w></anything><more xsi:type="xs:int">1</more><more>plain</more><more xsi:type="slotted" id="9"/><more><deep><er>x</er></deep></more></holder>""")
_x("hw_holder_local_type", "m_edge.Holder", """<e:holder xmlns:e="urn:e" xmlns:xsi="http://www.w3.org/2001/XMLSchema-instance"><e:anything xsi:type="e:thing"><e:v>is it local?</e:v></e:anything></e:holder>""")
_x("hw_tokens", "m_edge.Tokens", """<tokens xmlns="urn:e" colorAttr=" green  red " ids="i1 i2 i1" one="red" req="r"><colors>red blue</colors><row>1 2</row><row/><row> 30 </row><either>30</either></tokens>""")
_x("hw_tokens_color", "m_edge.Tokens", """<tokens xmlns="urn:e" req=""><either>dark red</either></tokens>""")
_x("hw_blobs", "m_edge.Blobs", """<blobs xmlns="urn:e" key="aw=="><blob>aGVs\nbG8=</blob><hex>0102</hex><hex/><hex>abCD</hex><numOrHex>ABCD</numOrHex></blobs>""")
_x("hw_blobs_num", "m_edge.Blobs", """<blobs xmlns="urn:e"><numOrHex>12</numOrHex></blobs>""")
_x("hw_rated", "m_edge.Rated", """<rated xmlns="urn:e" rates="2 0.0 1.50" scale="1.00"><rate>1.5</rate><amount>-0</amount><unit>2.50</unit></rated>""")
_x("hw_onewild", "m_edge.OneWild", """<e:oneWild xmlns:e="urn:e"><e:head>h</e:head><e:thing><e:w>1</e:w></e:thing><e:tail>2</e:tail></e:oneWild>""")
_x("hw_onewild_two", "m_edge.OneWild", """<e:oneWild xmlns:e="urn:e"><e:slotted id="1"/><e:thing><e:w>1</e:w></e:thing><free>x</free></e:oneWild>""")
_x("hw_wildchoice", "m_edge.WildChoice", """<e:wildChoice xmlns:e="urn:e" xmlns:o="urn:o" xmlns:xsi="http://www.w3.org/2001/XMLSchema-instance" label="l"><e:thing><e:w>1</e:w></e:thing><e:n>5</e:n><o:free a="1">f</o:free><e:color>red</e:color><e:color xsi:nil="true"/><e:slotted id="3"/><plain/></e:wildChoice>""")
_x("hw_stamped", "m_edge.Stamped", """<stamped xmlns="urn:e" days="1999-12-31 2020-02-29" at="2020-01-01T00:00:00"><release>2020-01-01T00:00:00</release><opens>09:00:00</opens></stamped>""")
_x("hw_group", "m_edge.Group", """<e:group xmlns:e="urn:e" name="a"><e:child name="b"><e:child name="c"><e:child name="d"/></e:child></e:child></e:group>""")
_x("hw_chain", "m_edge.Chain", """<e:chain xmlns:e="urn:e" xmlns:xsi="http://www.w3.org/2001/XMLSchema-instance" label="a"><e:next label="b" xsi:type="e:boldChain"><e:next label="c"/></e:next></e:chain>""")
_x("hw_mixedmoney", "m_edge.MixedMoney", """<e:mixedMoney xmlns:e="urn:e">costs <e:amount>1.50</e:amount> or <e:count>3</e:count> pieces at <e:ratio>0.5</e:ratio> <e:b>bold</e:b> <e:other>x</e:other></e:mixedMoney>""")
_x("hw_invoice_v1", "m_edge.InvoiceV1", """<i:invoice xmlns:i="urn:invoice:v1" total="1.0"><i:number>n1</i:number></i:invoice>""")
_x("hw_invoice_v2", "m_edge.InvoiceV2", """<i:invoice xmlns:i="urn:invoice:v2" total="2.0"><i:number>n2</i:number></i:invoice>""")
_x("hw_invoice_none", "m_edge.InvoiceNone", """<invoice total="3.0"><number>n3</number></invoice>""")
_x("hw_stocked", "m_edge.Stocked", """<e:stocked xmlns:e="urn:e" alt="CD-2"><e:sku>AB-1</e:sku><e:qty>3</e:qty></e:stocked>""")
_x("hw_noclass_settings1", None, """<Settings1><settings_one_name>x</settings_one_name></Settings1>""")
_x("hw_noclass_settings2", None, """<Settings2><settings_two_name>x</settings_two_name></Settings2>""")
_x("hw_holder_settings", "m_edge.Holder", """<e:holder xmlns:e="urn:e" xmlns:xsi="http://www.w3.org/2001/XMLSchema-instance"><e:anything xsi:type="Settings1"><settings_one_name>n</settings_one_name></e:anything><e:more xsi:type="Settings2"><settings_two_name>m</settings_two_name></e:more></e:holder>""")
_x("hw_house1", "m_same1.House", """<h:house xmlns:h="urn:s1" owner="o"><h:street><h:name>a</h:name><h:number>1</h:number></h:street><h:side><h:name>b</h:name></h:side></h:house>""")
_x("hw_house2", "m_same2.House", """<h:house xmlns:h="urn:s2" owner="o"><h:street zip_code="z"><h:name>a</h:name></h:street><h:side zip_code="y"><h:name>b</h:name></h:side></h:house>""")
_x("hw_orderline", "m_edge.OrderLine", """<OrderLine line_no="1"><unit_price>3.50</unit_price><order_items>a</order_items></OrderLine>""")
_x("hw_painted", "m_edge.Painted", """<e:painted xmlns:e="urn:e" shade="RED"><e:tint>green</e:tint><e:tint>Green</e:tint></e:painted>""")
_x("hw_attrmix", "m_edge.AttrMix", """<e:attrMix xmlns:e="urn:e" xmlns:o="urn:o" id="i" xml:lang="en" xml:space="preserve" e:qualified="4" o:x="1" plain="p"> 7 </e:attrMix>""")
_x("hw_item_constructs", "m_basic.Item", """<?xml version="1.0"?><!DOCTYPE item [<!ENTITY nm "entity name">]><?pi before?><!-- c --><item xmlns="urn:basic" id="&#49;" xml:lang="en"><?pi inside?><name>&nm; <![CDATA[<cdata>]]> &amp;<!-- in text --> end</name><qty><![CDATA[2]]></qty></item><!-- after --><?pi after?>""")
_x("hw_item_leapday", "m_basic.Item", """<item xmlns="urn:basic" id="1"><name>leap</name><when>2024-02-29</when><stamp>2024-02-29T10:00:00Z</stamp><at>23:59:59.999</at><took>P1Y2M3DT4H5M6.5S</took></item>""")
_x("hw_item_leapday_2000", "m_basic.Item", """<item xmlns="urn:basic" id="1"><name>leap</name><when>2000-02-29+02:00</when><stamp>-0004-02-29T00:00:00</stamp></item>""")
_x("hw_item_feb28", "m_basic.Item", """<item xmlns="urn:basic" id="1"><name>common</name><when>2023-02-28</when><stamp>1900-02-28T10:00:00-05:00</stamp><at>00:00:00Z</at><took>-PT0.001S</took></item>""")
_x("hw_item_rebound", "m_basic.Item", """<p:item xmlns:p="urn:basic" id="1"><p:name xmlns:p="urn:basic">n</p:name><q:qty xmlns:q="urn:basic">2</q:qty><p:ref xmlns:p="urn:other" xmlns:b="urn:basic">p:val</p:ref></p:item>""")
XML["hw_item_utf16"] = ('<?xml version="1.0" encoding="UTF-16"?><item xmlns="urn:basic" id="1"><name>n\u00e9\u20ac</name></item>'.encode("utf-16"), "m_basic.Item", None)
XML["hw_item_bom"] = (b"\xef\xbb\xbf" + '<item xmlns="urn:basic" id="1"><name>bom \u00e9</name></item>'.encode(), "m_basic.Item", None)

# documents in files (relative path below sim/pool): name -> (path, class key, needs)
XML_FILES = {
    "file_xorder_eu": ("xinc/eu/order.xml", "m_edge.XOrder", None),
    "file_xorder_us": ("xinc/us/order.xml", "m_edge.XOrder", None),
    "file_customer_eu": ("xinc/eu/customer.xml", "m_edge.XCustomer", None),
    "file_customer_us": ("xinc/us/customer.xml", "m_edge.XCustomer", None),
}

# documents that do not fit: name -> (bytes, class key, needs)
BAD_XML = {}


def _bx(name, clazz, text, needs=None):
    BAD_XML[name] = (text.strip().encode(), clazz, needs)


_bx("bad_unknown_element", "m_basic.Item", """<item xmlns="urn:basic" id="1"><name>n</name><bogus>1</bogus></item>""")
_bx("bad_unknown_attr", "m_basic.Item", """<item xmlns="urn:basic" id="1" bogus="1"><name>n</name></item>""")
_bx("bad_value", "m_basic.Item", """<item xmlns="urn:basic" id="notint"><name>n</name><qty>many</qty><when>yesterday</when></item>""")
_bx("bad_xsi_type", "m_xsi.Zoo", """<zoo xmlns="urn:x" xmlns:xsi="http://www.w3.org/2001/XMLSchema-instance"><star xsi:type="nosuch"><name>n</name></star></zoo>""")
_bx("bad_xsi_prefix", "m_xsi.Zoo", """<zoo xmlns="urn:x" xmlns:xsi="http://www.w3.org/2001/XMLSchema-instance"><star xsi:type="q:dog"><name>n</name></star></zoo>""")
_bx("bad_xsi_unrelated", "m_xsi.Zoo", """<zoo xmlns="urn:x" xmlns:xsi="http://www.w3.org/2001/XMLSchema-instance"><star xsi:type="unrelated"><name>n</name></star></zoo>""")
_bx("bad_malformed", "m_basic.Item", """<item xmlns="urn:basic" id="1"><name>n</nam></item>""")
_bx("bad_truncated", "m_basic.Order", """<order xmlns="urn:basic" number="1"><item id="1"><name>n</name>""")
_bx("bad_wrong_root", "m_basic.Item", """<order xmlns="urn:basic" number="1"/>""")
_bx("bad_no_root_class", None, """<nothing xmlns="urn:nowhere"><a/></nothing>""")
_bx("bad_child_in_simple", "m_basic.Item", """<item xmlns="urn:basic" id="1"><name><b>n</b></name></item>""")
_bx("bad_missing_required", "m_basic.Order", """<order xmlns="urn:basic"><comment>c</comment></order>""")
_bx("bad_wrong_ns_child", "m_ns.ParentA", """<parentA xmlns="urn:a"><child xmlns="urn:b"><x>1</x></child></parentA>""")
_bx("bad_otherbox_own_ns", "m_wild.OtherBox", """<otherBox xmlns="urn:w"><head>h</head><x>1</x></otherBox>""")
_bx("bad_localbox_ns", "m_wild.LocalBox", """<w:localBox xmlns:w="urn:w" xmlns:q="urn:q"><q:loc>l</q:loc></w:localBox>""")
_bx("bad_union", "m_compound.EitherWay", """<either xmlns="urn:c"><pick zzz="1"><nope/></pick></either>""")
_bx("bad_fixed", "m_basic.Item", """<item xmlns="urn:basic" id="1" version="2.0"><name>n</name></item>""")
_bx("bad_empty", "m_basic.Item", "")
_bx("bad_item_feb29", "m_basic.Item", """<item xmlns="urn:basic" id="1"><name>n</name><when>2023-02-29</when><stamp>1900-02-29T10:00:00</stamp><at>24:00:00</at></item>""")
_bx("bad_tokens_repeated", "m_edge.Tokens", """<tokens xmlns="urn:e" req="r" one="purple"><colors>red blue</colors><colors/><row>1 x</row></tokens>""")
_bx("bad_nillist", "m_edge.NilList", """<nilList xmlns="urn:e" xmlns:xsi="http://www.w3.org/2001/XMLSchema-instance" total="x"><value xsi:nil="true">5</value><value>x</value><opt xsi:nil="maybe"/><opt>2</opt></nilList>""")
_bx("bad_blobs", "m_edge.Blobs", """<blobs xmlns="urn:e" key="a"><blob>a</blob><hex>0</hex><numOrHex>xyz</numOrHex></blobs>""")

# JSON documents: name -> (text, class key or None, needs)
JSON = {
    "js_item": ('{"id": 5, "name": "j", "qty": 2, "tags": ["a", "b"], "kind": "small", "when": "2020-01-01", "ref": "{urn:refs}t", "flag": false, "price": "1.10", "lang": "en", "version": "1.0"}', "m_basic.Item", None),
    "js_item_leapday": ('{"id": 1, "name": "leap", "when": "2024-02-29", "stamp": "2024-02-29T10:00:00Z"}', "m_basic.Item", None),
    "js_item_feb28": ('{"id": 1, "name": "common", "when": "2023-02-28", "stamp": "2100-02-28T10:00:00Z"}', "m_basic.Item", None),
    "js_fault": ('{"code": "{urn:fault:v1}Sender", "sub": ["{urn:fault:v2}Sender"], "attr_code": null}', "m_basic.Fault", None),
    "js_fault_prefixed": ('{"code": "c:Sender", "sub": [], "attr_code": null}', "m_basic.Fault", None),
    "js_formats": ('{"b64": "ABCD", "b16": "ABCD", "dmy": "01/02/2020", "mdy": "01/02/2020", "plain": "2020-01-02"}', "m_basic.Formats", None),
    "js_edge": ('{"ints": [1, 2], "levels": [1, 2], "notes": ["a", null], "year": "2020", "month_day": "--02-29", "inner": {"v": 1, "w": ["x"]}, "in": [{"v": 2, "w": []}], "fixed_float": "NaN", "fixed_text": "  keep  ", "uri": null, "big": 5, "flt": 1.5, "dec": "2.50"}', "m_basic.Edge", None),
    "js_order": ('{"number": 3, "item": [{"id": 1, "name": "a"}, {"id": 2, "name": "b", "level": 2}], "comment": null, "extra": {"k": "v"}}', "m_basic.Order", None),
    "js_order_list": ('[{"number": 1}, {"number": 2, "comment": "c"}]', "list:m_basic.Order", None),
    "js_zoo": ('{"star": {"name": "rex", "bark": 2}, "animal": [{"name": "tom", "lives": 3}, {"name": "plain"}], "thing": 5, "t": ["a", 1]}', "m_xsi.Zoo", None),
    "js_zoo_derived": ('{"star": {"qname": "{urn:x}star", "type": "{urn:x}dog", "value": {"name": "d", "bark": 1}}}', "m_xsi.Zoo", None),
    "js_parentA": ('{"child": {"x": "1", "y": 2}, "mid": {"leaf": {"v": "q", "n": 1}, "label": "l"}, "title": "t"}', "m_ns.ParentA", None),
    "js_parentB": ('{"child": {"x": "1"}, "title": "t"}', "m_ns.ParentB", None),
    "js_choice": ('{"items": [{"a": 1, "text": "x"}, 5, {"b": "b", "num": 2}, "w"]}', "m_compound.Choice", None),
    "js_either": ('{"pick": {"b": "q", "num": 4}, "label": "l"}', "m_compound.EitherWay", None),
    "js_wrapped": ('{"nums": {"num": [1, 2]}, "alphas": {"alpha": [{"a": 1, "text": ""}]}}', "m_compound.Wrapped", None),
    "js_anybox": ('{"head": "h", "any_el": [{"qname": "{urn:z}f", "text": "t", "tail": null, "children": [], "attributes": {"a": "1"}}, {"value": "bold"}]}', "m_wild.AnyBox", None),
    "js_seq": ('{"a": [1, 2], "b": ["x"], "tail": "z"}', "m_compound.Seq", None),
    "js_nillist": ('{"value": [1, null, 3], "name": ["a", null, ""], "opt": null, "total": 3}', "m_edge.NilList", None),
    "js_holder": ('{"local": {"v": "lv"}, "thing": {"w": 2}, "anything": {"w": 3}, "more": [1, "s", {"w": 4}, {"v": "x"}]}', "m_edge.Holder", None),
    "js_tokens": ('{"colors": ["red", "blue"], "row": [[1, 2], [], [30]], "colorAttr": ["green"], "ids": ["i1", "i1"], "one": "red", "either": 30, "req": "r"}', "m_edge.Tokens", None),
    "js_blobs": ('{"blob": "aGVsbG8=", "hex": ["0102", ""], "numOrHex": "ABCD", "key": "aw==", "value": "FF"}', "m_edge.Blobs", None),
    "js_rated": ('{"rate": "1.5", "rates": ["2", "0"], "amount": "12.50", "scale": "1.0", "unit": 2.5}', "m_edge.Rated", None),
    "js_wildchoice": ('{"items": [{"w": 1}, 5, "red", {"qname": "{urn:o}free", "text": "f", "tail": null, "children": [], "attributes": {}}, {"qname": "{urn:e}n", "type": null, "value": 7}, {"qname": "{urn:o}slot", "type": "{urn:e}slotted", "value": {"id": 1, "v": [], "kid": null}}], "label": "l"}', "m_edge.WildChoice", None),
    "js_owner": ('{"pet": {"name": "d", "bark": 1, "collar": {"color": "blue"}}, "other": [{"name": "c", "lives": 9, "collar": null}, {"name": "p", "collar": {"color": null}}]}', "m_edge.Owner", None),
    "js_stamped": ('{"release": "2021-06-30T23:59:59+02:00", "days": ["2020-02-29"], "at": "2020-01-01T00:00:00", "opens": "09:00:00"}', "m_edge.Stamped", None),
    "js_group": ('{"name": "a", "child": {"name": "b", "child": {"name": "c", "child": null}}}', "m_edge.Group", None),
    "js_chain": ('{"label": "a", "next": {"label": "b", "next": {"label": "c", "next": null}}}', "m_edge.Chain", None),
    "js_measure_dec": ('{"items": ["10.50"]}', "m_edge.Measure", None),
    "js_measure_date": ('{"items": ["2024-02-29"]}', "m_edge.Measure", None),
    "js_measure_int": ('{"items": ["7"]}', "m_edge.Measure", None),
    "js_measure_float": ('{"items": ["7.5", "NaN"]}', "m_edge.Measure", None),
    "js_stocked": ('{"sku": "AB-1", "alt": null, "qty": 3}', "m_edge.Stocked", None),
    "js_house1": ('{"street": {"name": "a", "number": 1}, "side": [], "owner": null}', "m_same1.House", None),
    "js_house2": ('{"street": {"name": "a", "zip_code": "z"}, "side": [{"name": "b", "zip_code": null}], "owner": null}', "m_same2.House", None),
    "js_painted": ('{"shade": "Red", "tint": ["green", "GREEN"]}', "m_edge.Painted", None),
    "js_attrmix": ('{"id": "i", "lang": "en", "space": null, "qualified": 4, "rest": {"{urn:o}x": "1", "plain": "p"}, "value": 7}', "m_edge.AttrMix", None),
    "js_noclass_thing_w": ('{"w": 5}', None, None),
    "js_noclass_thing_v": ('{"v": "only the local type has this"}', None, None),
    # located by field names only
    "js_noclass_settings1": ('{"settings_one_name": "y"}', None, None),
    "js_noclass_settings2": ('{"settings_two_name": "y"}', None, None),
    "js_noclass_order": ('{"number": 3, "item": [], "comment": "c", "extra": {}}', None, None),
    "js_noclass_unrelated": ('{"name": "n", "only_here": "o"}', None, None),
    "js_noclass_animal": ('{"name": "n"}', None, None),
    "js_noclass_cat": ('{"name": "n", "lives": 3}', None, None),
    "js_noclass_dup1": ('{"first": "f"}', None, None),
    "js_noclass_dog": ('{"name": "n", "bark": 3}', None, None),
    "js_noclass_thing2": ('{"beta": "b", "size": "s"}', None, None),
    "js_noclass_lateroot": ('{"late_one_field": "x", "late_one_count": 1}', None, "L1"),
    "js_noclass_latetwo": ('{"late_two_field": "y", "late_two_flag": true}', None, "L2"),
}
def _deep_rnode_json(depth):
    text = '{"value": %d, "child": null}' % depth
    for i in range(depth - 1, -1, -1):
        text = '{"value": %d, "child": %s}' % (i, text)
    return text


# deeper than the interpreter's default recursion limit allows the recursive decoder to go
JSON["js_rnode_500"] = (_deep_rnode_json(500), "m_compound.RNode", None)

BAD_JSON = {
    "bjs_unknown_prop": ('{"id": 5, "name": "j", "bogus": 1}', "m_basic.Item", None),
    "bjs_bad_value": ('{"id": "x", "name": "j", "when": "never"}', "m_basic.Item", None),
    "bjs_noclass_nomatch": ('{"zzz_nothing_has_this": 1}', None, None),
    "bjs_array_for_object": ('[{"id": 1}]', "m_basic.Item", None),
    "bjs_syntax": ('{"id": 1,', "m_basic.Item", None),
    "bjs_missing_required": ('{"name": "j"}', "m_basic.Item", None),
    "bjs_empty": ("{}", None, None),
    "bjs_owner_nested_unknown": ('{"pet": {"name": "d", "bark": 1, "collar": {"color": "blue", "size": 3}}, "other": []}', "m_edge.Owner", None),
    "bjs_owner_base_nested_unknown": ('{"pet": null, "other": [{"name": "c", "lives": 9, "collar": {"color": "red", "tag": "t"}}]}', "m_edge.Owner", None),
    "bjs_owner_nested_bad_value": ('{"pet": {"name": "d", "bark": "loud", "collar": {"color": "blue"}}, "other": []}', "m_edge.Owner", None),
}

# direct context lookups
QNAMES = [
    ("{urn:x}dog", None),
    ("{urn:x}cat", None),
    ("{urn:dup}dup", None),
    ("{urn:s1}thing", None),
    ("{urn:s2}thing", None),
    ("{urn:late1}bird", "L1"),
    ("{urn:late2}lateTwo", "L2"),
    ("{urn:nowhere}nothing", None),
    ("{http://www.w3.org/2001/XMLSchema}string", None),
    ("Child", None),
    ("{urn:e}thing", None),
    ("Settings1", None),
    ("Settings2", None),
    ("{urn:e}slotted", None),
]
FIELD_SETS = [
    (("name", "bark"), None),
    (("beta",), None),
    (("first", "second"), None),
    (("x", "y"), None),
    (("late_one_field",), "L1"),
    (("late_two_field", "late_two_flag"), "L2"),
    (("no_such_field_anywhere",), None),
    (("w",), None),
    (("v",), None),
    (("id", "v", "kid"), None),
]


# ---------------------------------------------------------------- repository fixtures (optional)
def _load_fixtures():
    import os

    from sim.pool import fixtures

    repo = os.environ.get("VERIF_REPO", "/repo")
    fx = fixtures.load(repo)
    CLASSES.update(fx["classes"])
    OBJS.update(fx["objs"])
    XML.update(fx["xml"])
    JSON.update(fx["json"])
    return sorted(fx["classes"])


FIXTURE_CLASSES = _load_fixtures()


# ---------------------------------------------------------------- generated models
def _load_generated():
    from sim.pool import gen_models

    mod, objs, classes = gen_models.load()
    CLASSES.update(classes)
    OBJS.update(objs)
    return sorted(classes)


GENERATED_CLASSES = _load_generated()
