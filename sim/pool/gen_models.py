"""Pool: programmatically generated binding models and instances.

A fixed-seed generator (independent of VERIF_SEED: the pool is data, not part of a run) builds a
module `sim.pool.m_gen` of dataclasses from a small grammar of field kinds, a small vocabulary of
class, element and field names (so that names collide across classes and namespaces - collisions
are what expose caches keyed by too little) and a few namespaces, plus instances of them.
Documents are produced from the instances by the serializers in the prep child.
"""
import dataclasses
import random
import sys
import types
from dataclasses import field
from decimal import Decimal
from enum import Enum
from typing import Optional, Union
from xml.etree.ElementTree import QName

from xsdata.formats.dataclass.models.generics import AnyElement
from xsdata.models.datatype import XmlDate, XmlDateTime, XmlDuration, XmlTime

from sim.pool.base import StableHashMeta

MODULE = "sim.pool.m_gen"
SEED = 20260925
NAMESPACES = [None, "urn:g1", "urn:g2", "urn:g3"]
CLASS_WORDS = ["Item", "Entry", "Node", "Part", "Group", "Record", "Value", "Data", "Info", "Unit"]
ELEMENT_NAMES = ["item", "entry", "node", "part", "group", "record"]
FIELD_WORDS = ["id", "name", "value", "type", "item", "entry", "code", "note", "ref", "data", "child", "tags", "extra", "content", "kind", "count"]


class Color(Enum):
    RED = "red"
    GREEN = "green"
    BLUE = "dark blue"


class Rank(Enum):
    LOW = 1
    HIGH = 2


PRIMS = [
    (int, lambda r: r.choice([0, 1, -7, 42, 10**12])),
    (str, lambda r: r.choice(["", "a", "hello world", "  padded ", "<&>\"'", "é中", "x:y"])),
    (bool, lambda r: r.choice([True, False])),
    (float, lambda r: r.choice([0.0, 1.5, -2.25, 1e10])),
    (Decimal, lambda r: r.choice([Decimal("0"), Decimal("1.10"), Decimal("-3.5")])),
    (XmlDate, lambda r: r.choice([XmlDate(2020, 2, 29), XmlDate(1999, 12, 31, 60)])),
    (XmlDateTime, lambda r: XmlDateTime(2021, 3, 4, 5, 6, 7)),
    (XmlTime, lambda r: XmlTime(23, 59, 58)),
    (XmlDuration, lambda r: XmlDuration("P1DT2H")),
    (QName, lambda r: r.choice([QName("urn:g1", "q"), QName("urn:q", "w"), QName("plain")])),
    (Color, lambda r: r.choice(list(Color))),
    (Rank, lambda r: r.choice(list(Rank))),
]


class GenBase(metaclass=StableHashMeta):
    """Carries the address-independent hash; no fields, no Meta."""

    __slots__ = ()


class Spec:
    """What the instance generator needs to know about a generated class."""

    def __init__(self, cls, fields, mixed=False):
        self.cls = cls
        self.fields = fields  # list of (name, kind, payload)
        self.mixed = mixed


def build():
    rng = random.Random(SEED)
    mod = types.ModuleType(MODULE)
    mod.__dict__["__NAMESPACE__"] = "urn:g1"
    mod.Color = Color
    mod.Rank = Rank
    Color.__module__ = MODULE
    Rank.__module__ = MODULE
    sys.modules[MODULE] = mod
    specs = []
    used_names = set()
    for i in range(34):
        word = rng.choice(CLASS_WORDS)
        name = f"{word}{i}"
        used_names.add(name)
        ns = rng.choice(NAMESPACES)
        has_meta = rng.random() < 0.8
        base_spec = None
        if specs and rng.random() < 0.25:
            base_spec = rng.choice([s for s in specs if not s.mixed] or specs)
        fields = []
        taken = {f[0] for f in base_spec.fields} if base_spec else set()
        kinds = ["attr", "attr", "elem", "elem", "elem_list", "tokens", "model", "model_list", "nillable", "anytype", "wild", "attrs", "compound", "union", "wrapper", "base_typed"]
        text_only = rng.random() < 0.12 and not base_spec
        mixed = False
        nfields = rng.choice([2, 3, 4, 5, 6])
        has_wild = False
        for _ in range(nfields):
            fname = rng.choice([w for w in FIELD_WORDS if w not in taken] or ["f%d" % len(taken)])
            taken.add(fname)
            kind = rng.choice(kinds)
            if text_only and kind not in ("attr", "attrs"):
                kind = "attr"
            if kind in ("model", "model_list", "base_typed", "wrapper") and not specs:
                kind = "elem"
            if kind == "wild" and has_wild:
                kind = "elem"
            md = {}
            payload = None
            if kind == "attr":
                tp, gen = rng.choice(PRIMS)
                md = {"type": "Attribute"}
                if rng.random() < 0.3:
                    md["name"] = rng.choice(["id", "ID", "a-b", "type"])
                if rng.random() < 0.15:
                    md["namespace"] = rng.choice(["urn:g2", "http://www.w3.org/XML/1998/namespace"])
                ann, default, payload = Optional[tp], None, ("prim", tp, gen)
            elif kind == "elem":
                tp, gen = rng.choice(PRIMS)
                md = {"type": "Element"}
                if rng.random() < 0.3:
                    md["name"] = rng.choice(ELEMENT_NAMES + ["value", "name"])
                if rng.random() < 0.2:
                    md["namespace"] = rng.choice(["", "urn:g3"])
                ann, default, payload = Optional[tp], None, ("prim", tp, gen)
            elif kind == "elem_list":
                tp, gen = rng.choice(PRIMS)
                md = {"type": "Element"}
                ann, default, payload = list[tp], list, ("prim_list", tp, gen)
            elif kind == "tokens":
                tp, gen = rng.choice(PRIMS[:5] + PRIMS[10:])
                md = {"type": rng.choice(["Element", "Attribute"]), "tokens": True}
                ann, default, payload = list[tp], list, ("prim_list", tp, gen)
            elif kind == "nillable":
                tp, gen = rng.choice(PRIMS[:4])
                md = {"type": "Element", "nillable": True}
                ann, default, payload = Optional[tp], None, ("prim_or_none", tp, gen)
            elif kind in ("model", "model_list", "wrapper"):
                target = rng.choice(specs)
                md = {"type": "Element"}
                if rng.random() < 0.4:
                    md["name"] = rng.choice(ELEMENT_NAMES)
                if kind == "model":
                    ann, default, payload = Optional[target.cls], None, ("model", target)
                else:
                    if kind == "wrapper":
                        md["wrapper"] = rng.choice(["items", "entries", "list"])
                        md.setdefault("name", "item")
                    ann, default, payload = list[target.cls], list, ("model_list", target)
            elif kind == "base_typed":
                bases = [s for s in specs if any(issubclass(o.cls, s.cls) and o is not s for o in specs)]
                if not bases:
                    tp, gen = rng.choice(PRIMS)
                    md = {"type": "Element"}
                    ann, default, payload = Optional[tp], None, ("prim", tp, gen)
                else:
                    target = rng.choice(bases)
                    md = {"type": "Element"}
                    ann, default, payload = list[target.cls], list, ("derived_list", target)
            elif kind == "anytype":
                md = {"type": "Element"}
                ann, default, payload = Optional[object], None, ("anytype",)
            elif kind == "wild":
                has_wild = True
                wns = rng.choice(["##any", "##other", "##local", "##targetNamespace", "urn:g2 ##local"])
                md = {"type": "Wildcard", "namespace": wns}
                if rng.random() < 0.25 and not base_spec:
                    md["mixed"] = True
                    md["namespace"] = "##any"
                    mixed = True
                ann, default, payload = list[object], list, ("wild", md["namespace"], bool(md.get("mixed")))
            elif kind == "attrs":
                md = {"type": "Attributes"}
                if rng.random() < 0.5:
                    md["namespace"] = rng.choice(["##any", "##other"])
                ann, default, payload = dict[str, str], dict, ("attrs", md.get("namespace"))
            elif kind == "compound":
                t1, g1 = rng.choice(PRIMS[:2])
                choices = [{"name": rng.choice(["alpha", "num"]), "type": t1}]
                members = [("prim", t1, g1)]
                if specs:
                    tgt = rng.choice(specs)
                    choices.append({"name": rng.choice(ELEMENT_NAMES), "type": tgt.cls})
                    members.append(("model", tgt))
                    utype = Union[t1, tgt.cls]
                else:
                    utype = t1
                md = {"type": "Elements", "choices": tuple(choices)}
                ann, default, payload = list[utype], list, ("compound", members)
            else:  # union
                md = {"type": rng.choice(["Element", "Attribute"])}
                ann, default, payload = Optional[Union[int, bool, str]], None, ("prim", None, lambda r: r.choice([1, True, "s", "2"]))
            if text_only and kind == "attr" and not any(f[1] == "text" for f in fields) and rng.random() < 0.6:
                tp, gen = rng.choice(PRIMS[:6])
                fields.append(("text_value", "text", ("prim", tp, gen), Optional[tp], None, {"type": "Text"}))
            fields.append((fname, kind, payload, ann, default, md))
        dc_fields = []
        for fname, kind, payload, ann, default, md in fields:
            if default in (list, dict):
                dc_fields.append((fname, ann, field(default_factory=default, metadata=md)))
            else:
                dc_fields.append((fname, ann, field(default=default, metadata=md)))
        namespace = {}
        if has_meta:
            meta_attrs = {}
            if rng.random() < 0.7:
                meta_attrs["name"] = rng.choice(ELEMENT_NAMES)
            if ns is not None or rng.random() < 0.2:
                meta_attrs["namespace"] = ns
            if rng.random() < 0.05:
                meta_attrs["nillable"] = True
            namespace["Meta"] = type("Meta", (), meta_attrs)
        # a private, field-less base per class carries the address-independent hash: a *shared* base would make
        # unrelated classes "siblings" for xsi:type substitution (XmlContext.find_subclass)
        bases = (base_spec.cls,) if base_spec else (StableHashMeta(f"_Hash{i}", (), {"__slots__": ()}),)
        cls = dataclasses.make_dataclass(name, dc_fields, bases=bases, namespace=namespace, kw_only=True)
        cls.__module__ = MODULE
        cls.__qualname__ = name
        setattr(mod, name, cls)
        all_fields = (list(base_spec.fields) if base_spec else []) + [(f[0], f[1], f[2]) for f in fields]
        specs.append(Spec(cls, all_fields, mixed=mixed or (base_spec.mixed if base_spec else False)))
    return mod, specs


def make_instance(spec, rng, specs, depth=0):
    kwargs = {}
    for fname, kind, payload in spec.fields:
        if rng.random() < 0.25 and kind not in ("text",):
            continue  # leave the default
        tag = payload[0]
        if tag == "prim":
            kwargs[fname] = payload[2](rng)
        elif tag == "prim_or_none":
            kwargs[fname] = payload[2](rng) if rng.random() < 0.7 else None
        elif tag == "prim_list":
            kwargs[fname] = [payload[2](rng) for _ in range(rng.choice([0, 1, 2, 3]))]
        elif tag == "model":
            if depth < 2:
                kwargs[fname] = make_instance(payload[1], rng, specs, depth + 1)
        elif tag == "model_list":
            if depth < 2:
                kwargs[fname] = [make_instance(payload[1], rng, specs, depth + 1) for _ in range(rng.choice([0, 1, 2]))]
        elif tag == "derived_list":
            if depth < 2:
                subs = [s for s in specs if issubclass(s.cls, payload[1].cls)]
                kwargs[fname] = [make_instance(rng.choice(subs), rng, specs, depth + 1) for _ in range(rng.choice([1, 2]))]
        elif tag == "anytype":
            kwargs[fname] = rng.choice([1, "text", 2.5, True, XmlDate(2001, 1, 1)])
        elif tag == "wild":
            wns, mixed = payload[1], payload[2]
            items = []
            for _ in range(rng.choice([0, 1, 2])):
                q = {"##any": "{urn:free}w", "##other": "{urn:elsewhere}w", "##local": "w", "##targetNamespace": None, "urn:g2 ##local": "{urn:g2}w"}.get(wns, "{urn:free}w")
                if q is None:
                    continue
                items.append(AnyElement(qname=q, text=rng.choice(["t", None, "1"]), attributes=rng.choice([{}, {"a": "1"}, {"{urn:g3}b": "x:y"}])))
            if mixed:
                items = ["lead "] + items + [" tail"]
            kwargs[fname] = items
        elif tag == "attrs":
            wns = payload[1]
            if wns in ("##any", "##other"):
                kwargs[fname] = rng.choice([{}, {"{urn:attrs}k": "v"}, {"{urn:attrs}k": "v", "{urn:more}m": "p:q"}])
            else:
                kwargs[fname] = rng.choice([{}, {"plain": "v"}])
        elif tag == "compound":
            vals = []
            for _ in range(rng.choice([0, 1, 2, 3])):
                m = rng.choice(payload[1])
                if m[0] == "prim":
                    vals.append(m[2](rng))
                elif depth < 2:
                    vals.append(make_instance(m[1], rng, specs, depth + 1))
            kwargs[fname] = vals
    return spec.cls(**kwargs)


_built = None


def load():
    """Returns (module, {objname: (factory, class key)}, {class key: class})."""
    global _built
    if _built is None:
        mod, specs = build()
        classes = {f"m_gen.{s.cls.__name__}": s.cls for s in specs}
        objs = {}
        for i, s in enumerate(specs):
            for j in range(2):
                seed = SEED * 1000 + i * 10 + j

                def factory(s=s, seed=seed):
                    return make_instance(s, random.Random(seed), specs)

                objs[f"g{i}_{j}"] = (factory, f"m_gen.{s.cls.__name__}")
        _built = (mod, objs, classes)
    return _built
