"""Pool: same local names as m_same2, different namespace; `Dup` has the same qualified name in both."""
from dataclasses import dataclass, field

from sim.pool.base import StableHashMeta
from typing import Optional

__NAMESPACE__ = "urn:s1"


@dataclass
class Thing(metaclass=StableHashMeta):
    class Meta:
        name = "thing"
        namespace = "urn:s1"

    alpha: str = field(default="", metadata={"type": "Element"})
    size: Optional[int] = field(default=None, metadata={"type": "Attribute"})


@dataclass
class Dup(metaclass=StableHashMeta):
    class Meta:
        name = "dup"
        namespace = "urn:dup"
        target_namespace = "urn:dup"

    first: str = field(default="", metadata={"type": "Element"})


@dataclass
class Shape(metaclass=StableHashMeta):
    """m_same2 has an unrelated family with the very same qualified names."""

    class Meta:
        name = "shape"
        namespace = "urn:shapes"
        target_namespace = "urn:shapes"

    label: str = field(default="", metadata={"type": "Element"})


@dataclass
class Circle(Shape):
    class Meta:
        name = "circle"
        namespace = "urn:shapes"
        target_namespace = "urn:shapes"

    r: Optional[int] = field(default=None, metadata={"type": "Element"})


@dataclass
class Drawing1(metaclass=StableHashMeta):
    class Meta:
        name = "drawing1"
        namespace = "urn:shapes"

    shape: Optional[Shape] = field(default=None, metadata={"type": "Element"})


# The same annotation text in two modules: typing memoises `Optional["Street"]`, so both modules share one
# ForwardRef object although the name means another class in each of them.
@dataclass
class House(metaclass=StableHashMeta):
    class Meta:
        name = "house"
        namespace = "urn:s1"

    street: Optional["Street"] = field(default=None, metadata={"type": "Element"})
    streets: list["Street"] = field(default_factory=list, metadata={"type": "Element", "name": "side"})
    owner: Optional[str] = field(default=None, metadata={"type": "Attribute"})


@dataclass
class Street(metaclass=StableHashMeta):
    class Meta:
        name = "street"
        namespace = "urn:s1"

    name: Optional[str] = field(default=None, metadata={"type": "Element"})
    number: Optional[int] = field(default=None, metadata={"type": "Element"})
