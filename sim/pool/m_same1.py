"""Pool: same local names as m_same2, different namespace; `Dup` has the same qualified name in both."""
from dataclasses import dataclass, field

from sim.pool.base import StableHashMeta
from typing import Optional

__NAMESPACE__ = "urn:s1"


@dataclass
class Thing(metaclass=StableHashMeta):
    class Meta:
        name = "thing"
        namespace = "urn:s1"

    alpha: str = field(default="", metadata={"type": "Element"})
    size: Optional[int] = field(default=None, metadata={"type": "Attribute"})


@dataclass
class Dup(metaclass=StableHashMeta):
    class Meta:
        name = "dup"
        namespace = "urn:dup"
        target_namespace = "urn:dup"

    first: str = field(default="", metadata={"type": "Element"})
