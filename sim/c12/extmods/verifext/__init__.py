"""Importable targets for generator extensions used by the C12 workload (base classes and a decorator)."""


class Item:
    pass


class Status:
    pass


class Base:
    pass


class Party:
    pass


def marker(cls):
    return cls
