"""Simulator core: pristine zygote, fork-per-run batch runner, replay/evidence plumbing.

The process that imports this module is the *zygote*: it imports xsdata and the pool,
learns from a throw-away child which modules the library imports lazily and which
documents the serializers produce, and from then on only forks. Every simulated run
executes in a grandchild forked from it, so no run can see state left by another.
"""
import faulthandler
import gc
import hashlib
import importlib
import json
import os
import pickle
import select
import shutil
import signal
import struct
import sys
import time
import traceback

VERIF = os.path.dirname(os.path.dirname(os.path.abspath(__file__)))
REPO = os.environ.get("VERIF_REPO", "/repo")


def reexec_pinned():
    """Re-exec with a fixed hash seed and ASLR off, so that set/dict order is part of the replayable state."""
    want = os.environ.get("VERIF_HASHSEED", "0")
    if os.environ.get("PYTHONHASHSEED") == want and os.environ.get("PYTHONDONTWRITEBYTECODE") == "1" and os.environ.get("VERIF_PINNED") == "1":
        return
    env = dict(os.environ)
    env["PYTHONHASHSEED"] = want
    env["PYTHONDONTWRITEBYTECODE"] = "1"
    env["VERIF_PINNED"] = "1"
    argv = [sys.executable] + sys.argv
    setarch = shutil.which("setarch")
    if setarch:
        argv = [setarch, os.uname().machine, "-R"] + argv
    os.execve(argv[0], argv, env)


def setup_path():
    for p in (VERIF, REPO):
        if p in sys.path:
            sys.path.remove(p)
    sys.path[:0] = [REPO, VERIF]


# ---------------------------------------------------------------- child plumbing
def _write_all(fd, data):
    view = memoryview(data)
    while view:
        n = os.write(fd, view)
        view = view[n:]


def run_in_child(fn, args=(), timeout=60.0):
    """Run fn(*args) in a forked child; return ("ok", value) | ("exc", text) | ("timeout", text) | ("died", text)."""
    r, w = os.pipe()
    pid = os.fork()
    if pid == 0:
        code = 0
        try:
            os.close(r)
            gc.disable()
            faulthandler.enable(file=w, all_threads=True)
            faulthandler.dump_traceback_later(timeout, exit=True, file=w)
            try:
                out = ("ok", fn(*args))
            except BaseException:
                out = ("exc", traceback.format_exc())
            faulthandler.cancel_dump_traceback_later()
            payload = pickle.dumps(out, protocol=4)
            _write_all(w, b"PKL1" + struct.pack("<Q", len(payload)) + payload)
        except BaseException:
            code = 3
        finally:
            os._exit(code)
    os.close(w)
    chunks = []
    deadline = time.monotonic() + timeout + 3.0
    killed = False
    while True:
        left = deadline - time.monotonic()
        if left <= 0:
            try:
                os.kill(pid, signal.SIGKILL)
            except ProcessLookupError:
                pass
            killed = True
            break
        rl, _, _ = select.select([r], [], [], min(left, 1.0))
        if rl:
            b = os.read(r, 1 << 16)
            if not b:
                break
            chunks.append(b)
    os.close(r)
    try:
        os.waitpid(pid, 0)
    except ChildProcessError:
        pass
    data = b"".join(chunks)
    i = data.find(b"PKL1")
    if i >= 0 and len(data) >= i + 12:
        (n,) = struct.unpack("<Q", data[i + 4 : i + 12])
        body = data[i + 12 : i + 12 + n]
        if len(body) == n:
            try:
                return pickle.loads(body)
            except Exception as e:  # pragma: no cover
                return ("died", f"unpicklable result: {e!r}")
    text = data.decode("utf-8", "replace")
    if killed or "Timeout (" in text:
        return ("timeout", text[-4000:])
    return ("died", text[-4000:])


def run_batch(task, items, workers=None, timeout=30.0, deadline=None, on_result=None, per_item_fork=True):
    """Run task(item) for every item, each in its own grandchild (fork per run).

    Worker w handles items[w::W] in order. Returns list of (index, status, value) in
    index order; items not reached before `deadline` (monotonic) are omitted.
    """
    workers = workers or int(os.environ.get("VERIF_WORKERS", "0")) or min(16, os.cpu_count() or 1)
    workers = max(1, min(workers, len(items)))
    pipes = []
    for w in range(workers):
        r, wfd = os.pipe()
        pid = os.fork()
        if pid == 0:
            code = 0
            try:
                os.close(r)
                for rr, _ in pipes:
                    os.close(rr)
                for idx in range(w, len(items), workers):
                    if deadline is not None and time.monotonic() > deadline:
                        break
                    if per_item_fork:
                        status, value = run_in_child(task, (items[idx],), timeout)
                    else:
                        try:
                            status, value = "ok", task(items[idx])
                        except BaseException:
                            status, value = "exc", traceback.format_exc()
                    payload = pickle.dumps((idx, status, value), protocol=4)
                    _write_all(wfd, struct.pack("<Q", len(payload)) + payload)
            except BaseException:
                traceback.print_exc()
                code = 3
            finally:
                os._exit(code)
        os.close(wfd)
        pipes.append((r, pid))
    bufs = {r: bytearray() for r, _ in pipes}
    open_fds = set(bufs)
    results = []
    while open_fds:
        rl, _, _ = select.select(list(open_fds), [], [], 5.0)
        for r in rl:
            b = os.read(r, 1 << 20)
            if not b:
                open_fds.discard(r)
                os.close(r)
                continue
            buf = bufs[r]
            buf += b
            while len(buf) >= 8:
                (n,) = struct.unpack("<Q", bytes(buf[:8]))
                if len(buf) < 8 + n:
                    break
                rec = pickle.loads(bytes(buf[8 : 8 + n]))
                del buf[: 8 + n]
                results.append(rec)
                if on_result:
                    on_result(*rec)
    bad_workers = 0
    for _, pid in pipes:
        try:
            _, st = os.waitpid(pid, 0)
            if st != 0:
                bad_workers += 1
        except ChildProcessError:
            pass
    results.sort(key=lambda t: t[0])
    if bad_workers:
        raise HarnessError(f"{bad_workers} worker process(es) died")
    return results


def run_in_child_stream(fn, args=(), idle_timeout=30.0):
    """Run fn(*args, emit) in a forked child; emit(obj) streams framed pickles back.

    Returns (status, messages) with status ok | timeout | died. `timeout` means no message
    arrived for idle_timeout seconds (the child is killed)."""
    r, w = os.pipe()
    pid = os.fork()
    if pid == 0:
        code = 0
        try:
            os.close(r)
            gc.disable()

            def emit(obj):
                payload = pickle.dumps(obj, protocol=4)
                _write_all(w, struct.pack("<Q", len(payload)) + payload)

            try:
                fn(*args, emit)
            except BaseException:
                emit(("exc", traceback.format_exc()))
                code = 4
        except BaseException:
            code = 3
        finally:
            os._exit(code)
    os.close(w)
    buf = bytearray()
    msgs = []
    status = "ok"
    last = time.monotonic()
    while True:
        left = idle_timeout - (time.monotonic() - last)
        if left <= 0:
            try:
                os.kill(pid, signal.SIGKILL)
            except ProcessLookupError:
                pass
            status = "timeout"
            break
        rl, _, _ = select.select([r], [], [], min(left, 1.0))
        if not rl:
            continue
        b = os.read(r, 1 << 20)
        if not b:
            break
        last = time.monotonic()
        buf += b
        while len(buf) >= 8:
            (n,) = struct.unpack("<Q", bytes(buf[:8]))
            if len(buf) < 8 + n:
                break
            msgs.append(pickle.loads(bytes(buf[8 : 8 + n])))
            del buf[: 8 + n]
    os.close(r)
    try:
        _, st = os.waitpid(pid, 0)
        if status == "ok" and st != 0:
            status = "died"
    except ChildProcessError:
        pass
    return status, msgs


class HarnessError(Exception):
    pass


# ---------------------------------------------------------------- zygote
class Zygote:
    """Holds everything a run needs; built once, never executes library calls itself."""

    def __init__(self):
        self.ops = None
        self.op_by_name = None
        self.late = None  # key -> module object
        self.gen_docs = None
        self.prep_modules = None
        self.cov = {}
        self.cov_first = {}
        self.cov_lazy = {}
        self.cov_writes = {}
        self.cov_gwrites = {}
        self.cov_gslots = {}
        self.sensitive = []
        self.slow_ops = []


Z = Zygote()


def _prep_child():
    """Runs in a throw-away child: warm everything up, report lazy imports and generated docs."""
    from sim import ops as O
    from sim.pool import catalog as C

    before = set(sys.modules)
    O.install_capture()
    for key in C.LATE:
        register_late(key)
    gen = O.make_gen_docs()
    allops = O.build_ops(gen)
    env = O.Env()
    import signal

    class _Slow(BaseException):
        pass

    def _alarm(*a):
        raise _Slow()

    slow = []
    old = signal.signal(signal.SIGALRM, _alarm)
    for op in allops:
        signal.alarm(20)
        try:
            O.execute(op, env)
        except _Slow:
            slow.append(op.name)  # a pool call that does not come back: left out of every run, reported by C15
        finally:
            signal.alarm(0)
    signal.signal(signal.SIGALRM, old)
    # fault paths import errno/io etc. - already imported by simio
    after = set(sys.modules)
    new = sorted(m for m in after - before if sys.modules.get(m) is not None and m not in C.LATE.values())
    return {"modules": new, "gen_docs": gen, "nops": len(allops), "slow_ops": slow}


def bootstrap():
    """Build the zygote. Call once, before any fork of workers."""
    setup_path()
    import xsdata  # noqa: F401

    src = os.path.dirname(os.path.abspath(xsdata.__file__))
    if os.path.realpath(src) != os.path.realpath(os.path.join(REPO, "xsdata")):
        raise HarnessError(f"xsdata imported from {src}, expected {REPO}/xsdata")
    _import_all_xsdata_runtime()
    from sim import ops as O  # noqa: F401
    from sim.pool import catalog as C

    status, prep = run_in_child(_prep_child, (), timeout=300.0)
    if status != "ok":
        raise HarnessError(f"prep child failed: {status}: {prep}")
    for m in prep["modules"]:
        try:
            importlib.import_module(m)
        except Exception:
            pass
    Z.prep_modules = prep["modules"]
    Z.gen_docs = prep["gen_docs"]
    Z.slow_ops = list(prep.get("slow_ops", []))
    Z.ops = [o for o in O.build_ops(Z.gen_docs) if o.name not in set(Z.slow_ops)]
    Z.op_by_name = {o.name: o for o in Z.ops}
    for modname in C.LATE.values():
        if modname in sys.modules:
            raise HarnessError(f"late module {modname} leaked into the zygote")
    return Z


def _import_all_xsdata_runtime():
    for name in (
        "xsdata.formats.dataclass.context",
        "xsdata.formats.dataclass.parsers",
        "xsdata.formats.dataclass.parsers.nodes",
        "xsdata.formats.dataclass.parsers.handlers",
        "xsdata.formats.dataclass.parsers.handlers.lxml",
        "xsdata.formats.dataclass.parsers.handlers.native",
        "xsdata.formats.dataclass.serializers",
        "xsdata.formats.dataclass.serializers.tree",
        "xsdata.formats.dataclass.serializers.writers",
        "xsdata.formats.dataclass.serializers.writers.lxml",
        "xsdata.formats.dataclass.serializers.writers.native",
        "xsdata.formats.dataclass.models.generics",
        "xsdata.formats.converter",
    ):
        importlib.import_module(name)


LATE_DONE = set()  # late modules whose import has completed in this process
LATE_BUSY = set()  # late modules some thread is importing right now
LATE_LOCKS = {}  # key -> scheduler-aware lock standing in for the interpreter's per-module import lock


def register_late(key):
    """The `import` event: really import the module (classes are created now, the module count changes).
    A second thread importing the same module waits for the first, as the interpreter's module lock makes it."""
    from sim.pool import catalog as C

    lock = LATE_LOCKS.get(key)
    if lock is not None:
        lock.acquire()
    try:
        if key in LATE_DONE:
            return
        LATE_BUSY.add(key)
        try:
            importlib.import_module(C.LATE[key])
        finally:
            LATE_BUSY.discard(key)
        LATE_DONE.add(key)
    finally:
        if lock is not None:
            lock.release()


def child_init():
    """First thing every simulated run does."""
    from sim import ops as O

    O.install_capture()


# ---------------------------------------------------------------- reference table R
def _ref_task(item):
    opname, mods, want_cov = item
    from sim import ops as O

    child_init()
    for k in mods:
        register_late(k)
    env = O.Env()
    if not want_cov:
        return O.execute(Z.op_by_name[opname], env)
    from sim import sched as S

    codes = S.xsdata_code_objects()
    cov = S.CoverageCollector(codes)
    state0 = S.GlobalState.snapshot()
    cov.install()
    rec = O.execute(Z.op_by_name[opname], env)
    cov.uninstall()
    # module-level state this call replaced (not merely added to): state every caller shares. The lines
    # of the executed library functions that name the global are where such a call can be disturbed.
    state1 = S.GlobalState.snapshot()
    replaced = S.GlobalState.replaced(state0, state1)
    gnames = {p[1].split(".")[0] for p in replaced} | {p[1].split(".")[-1] for p in replaced}
    glocs = set()
    for code in cov.by_code:
        if gnames & (set(code.co_names) | set(code.co_freevars)):
            glocs |= {S.short_loc(code, ln) for _, _, ln in code.co_lines() if ln is not None and ln > code.co_firstlineno}
    rec["cov_gwrites"] = sorted(glocs)
    rec["cov_gslots"] = sorted({f"{p[0]}:{p[1]}" for p in replaced})
    # the same call again on the now warm instances: what it no longer executes is lazy initialisation;
    # attribute assignments on long-lived objects during this warm call are per-call shared-state writes
    warm = S.CoverageCollector(codes)
    writes = S.WriteRecorder()
    warm.install()
    writes.install()
    writes.install_process_setters()
    O.execute(Z.op_by_name[opname], env)
    writes.uninstall()
    warm.uninstall()
    # the same call once more must leave module-level state exactly as it found it: what it adds, removes or
    # replaces now is per-call state, not a cache being filled
    state2 = S.GlobalState.snapshot()
    moved = [p for p in set(state1) | set(state2) if state1.get(p) != state2.get(p)]
    if moved:
        names = {p[1].split(".")[0] for p in moved} | {p[1].split(".")[-1] for p in moved}
        for code in cov.by_code:
            if names & (set(code.co_names) | set(code.co_freevars)):
                rec["cov_gwrites"] = sorted(set(rec["cov_gwrites"]) | {S.short_loc(code, ln) for _, _, ln in code.co_lines() if ln is not None and ln > code.co_firstlineno})
        rec["cov_gslots"] = sorted(set(rec["cov_gslots"]) | {f"{p[0]}:{p[1]}" for p in moved})
    rec["cov_writes"] = sorted(writes.locs)
    rec["cov"] = sorted(cov.locs)
    rec["cov_first"] = sorted(cov.locs - warm.locs)
    # lazy initialisation inside functions that also run on warm instances (check-then-build, memo fill)
    lazy = set()
    for code, locs in cov.by_code.items():
        if code in warm.by_code and code.co_name not in ("__init__", "__post_init__"):
            lazy |= locs - warm.by_code[code]
    rec["cov_lazy"] = sorted(lazy)
    return rec


MSETS = [(), ("L1",), ("L2",), ("L1", "L2"), ("L3",), ("L1", "L3"), ("L2", "L3"), ("L1", "L2", "L3")]


def compute_reference(opnames=None, timeout=60.0, coverage=False):
    """R[(op, M)] = record of op executed alone, first, in a pristine child with late set M.
    With coverage=True the smallest admissible M also records which runtime lines the call executes (Z.cov)."""
    from sim.pool.catalog import L3_SENSITIVE

    items = []
    aliases = []
    for op in Z.ops:
        if opnames is not None and op.name not in opnames:
            continue
        first = True
        for m in MSETS:
            if op.needs and op.needs not in m:
                continue
            if "L3" in m and op.needs != "L3" and op.ck not in L3_SENSITIVE:
                aliases.append((op.name, m))  # taken to be unaffected by the converter registration
                continue
            items.append((op.name, m, coverage and first))
            first = False
    res = run_batch(_ref_task, items, timeout=timeout)
    R = {}
    for idx, status, value in res:
        if status != "ok":
            raise HarnessError(f"reference run failed for {items[idx]}: {status}: {str(value)[-2000:]}")
        if "cov" in value:
            Z.cov[items[idx][0]] = frozenset(value.pop("cov"))
            Z.cov_first[items[idx][0]] = frozenset(value.pop("cov_first"))
            Z.cov_lazy[items[idx][0]] = frozenset(value.pop("cov_lazy"))
            Z.cov_writes[items[idx][0]] = frozenset(value.pop("cov_writes"))
            Z.cov_gwrites[items[idx][0]] = frozenset(value.pop("cov_gwrites"))
            Z.cov_gslots[items[idx][0]] = frozenset(value.pop("cov_gslots"))
        R[(items[idx][0], frozenset(items[idx][1]))] = value
    if len(R) != len(items):
        raise HarnessError("reference table incomplete")
    for name, m in aliases:
        R[(name, frozenset(m))] = R[(name, frozenset(m) - {"L3"})]
    # calls whose result includes warnings or log records are the ones most easily disturbed by somebody
    # else's state (strictness flags, warning filters, leftovers): runs over-sample them as victims
    Z.sensitive = sorted({name for (name, m), rec in R.items() if (rec["w"] or rec["l"]) and not Z.op_by_name[name].needs})
    return R


# ---------------------------------------------------------------- misc
def digest(obj):
    return hashlib.sha256(json.dumps(obj, sort_keys=True, default=str).encode()).hexdigest()[:16]


def load_known_findings():
    path = os.path.join(VERIF, "known_findings.json")
    if not os.path.exists(path):
        return []
    with open(path) as f:
        return json.load(f)


def write_replay(prop, name, payload):
    d = os.path.join(VERIF, "replays", prop)
    os.makedirs(d, exist_ok=True)
    path = os.path.join(d, name + ".json")
    with open(path, "w") as f:
        json.dump(payload, f, indent=1, sort_keys=True)
    return path


def write_evidence(prop, ev):
    d = os.path.join(VERIF, "evidence")
    os.makedirs(d, exist_ok=True)
    path = os.path.join(d, prop + ".json")
    tmp = path + ".tmp"
    with open(tmp, "w") as f:
        json.dump(ev, f, indent=1, sort_keys=True, default=str)
    os.replace(tmp, path)
    return path
