"""Check driver for C19."""
import copy
import json
import os
import time
from collections import Counter

from sim import c19, core
from sim.driver import Report, seeds_for
from sim.minimize import Budget, ddmin, drop_one_at_a_time

PROP = "C19"
TIERS = {"quick": {"runs": 5000, "budget": 45.0}, "thorough": {"runs": 400000, "budget": 1500.0}}

_R = None


def _task(spec):
    return c19.run_spec(spec, _R)


def _seed_task(seed):
    return c19.run_spec(c19.gen_spec(seed), _R)


def explicit_spec(spec, out):
    s = {k: v for k, v in spec.items() if k not in ("p", "loc_cap", "max_switches", "p_hot", "strategy", "hot_skip")}
    s["schedule"] = out["schedule"]
    return s


def run_solo(spec, timeout=40.0):
    status, out = core.run_in_child(_task, (spec,), timeout=timeout)
    if status != "ok":
        return None, f"{status}: {str(out)[-1500:]}"
    return out, None


def has_sig(out, sig):
    return out is not None and any(tuple(v["sig"]) == tuple(sig) for v in out["viol"])


def minimize(spec, sig, max_trials=160):
    """Shrink an explicit spec while the same violation signature persists."""
    budget = Budget(max_trials)
    best = copy.deepcopy(spec)

    def attempt(cand):
        if not budget.take():
            return False
        out, err = run_solo(cand)
        return has_sig(out, sig)

    # 1. simpler tracing mode
    for change in ({"opcode": False}, {"mode": "shared"}):
        if best.get("mode") == "hotonly":
            break
        if any(best.get(k) != v for k, v in change.items()):
            cand = dict(best, **change)
            if attempt(cand):
                best = cand
    # 2. drop warm-up calls
    if best.get("warmup"):
        def t_warm(w):
            return attempt(dict(best, warmup=w))
        best["warmup"] = drop_one_at_a_time(best["warmup"], t_warm, budget)
    # 3. drop whole threads (switches that mention them go too; others are renumbered)
    t = len(best["threads"]) - 1
    while t >= 0 and len(best["threads"]) > 1:
        cand = drop_thread(best, t)
        if attempt(cand):
            best = cand
        t -= 1
    # 4. drop calls inside threads
    for ti in range(len(best["threads"])):
        def t_prog(prog, ti=ti):
            cand = copy.deepcopy(best)
            cand["threads"][ti] = prog
            return attempt(cand)
        best["threads"][ti] = drop_one_at_a_time(best["threads"][ti], t_prog, budget)
    # 5. drop pre-emption points
    def t_sw(sw):
        cand = copy.deepcopy(best)
        cand["schedule"]["switches"] = sw
        return attempt(cand)
    best["schedule"]["switches"] = ddmin(best["schedule"]["switches"], t_sw, budget)
    return best, max_trials - budget.left


def drop_thread(spec, t):
    cand = copy.deepcopy(spec)
    del cand["threads"][t]
    ren = lambda x: x - 1 if x > t else x  # noqa: E731
    sch = cand["schedule"]
    sch["switches"] = [[ren(a), k, ren(b)] for a, k, b in sch["switches"] if a != t and b != t]
    sch["finish"] = {str(ren(int(a))): ren(b) for a, b in sch["finish"].items() if int(a) != t and b != t}
    sch["start"] = ren(sch["start"]) if sch["start"] != t else 0
    return cand


def summarize(v):
    if v["clause"] == "result_differs_from_alone":
        return f"{v['op']} in thread {v['thread']}: got {v['got']['k']} {v['got']['v'][:160]!r} but alone {v['alone']['k']} {v['alone']['v'][:160]!r}"
    if v["clause"] == "index_observed_inconsistent":
        return f"find_types({v['qname']}) observed {v['got']} while a fresh context gives {v['fresh']}"
    return json.dumps(v)[:300]


def confirm_and_write(spec, sig, tag):
    """Replay the (minimised) spec in a fresh process twice; it must fail the same way with the same digest."""
    a, erra = run_solo(spec)
    b, errb = run_solo(spec)
    if not has_sig(a, sig) or not has_sig(b, sig):
        return None, None, "not reproducible from its explicit schedule"
    if a["digest"] != b["digest"]:
        return None, None, f"replay digests differ: {a['digest']} {b['digest']}"
    v = next(v for v in a["viol"] if tuple(v["sig"]) == tuple(sig))
    payload = {"property": PROP, "spec": spec, "violation": v, "digest": a["digest"], "sig": list(sig)}
    path = core.write_replay(PROP, f"{spec.get('seed', 0)}-{core.digest([spec, list(sig)])}-{tag}", payload)
    return path, v, None


def check(args):
    global _R
    t0 = time.time()
    tier = TIERS[args.tier]
    nruns = args.runs or tier["runs"]
    budget = args.budget or tier["budget"]
    core.reexec_pinned()
    core.bootstrap()
    _R = core.compute_reference(coverage=True)
    c19.build_loc_funcs()
    c19.warm_tables()
    t_setup = time.time() - t0
    seeds = seeds_for(args.seed, nruns)
    deadline = time.monotonic() + budget
    report = Report(PROP)
    agg = {
        "runs": 0, "steps": 0, "switches": 0, "ops": 0, "imports": 0,
        "threads": Counter(), "probes": Counter(), "inter": set(), "pairs": set(), "modes": Counter(), "hot_hits": 0,
        "find_types_checked": 0, "viol_runs": 0, "sigs": Counter(),
    }
    first_by_sig = {}
    samples = []
    t1 = time.time()

    retry = []

    def on_result(idx, status, out, final=False):
        if status != "ok":
            if status == "timeout" and not final and len(retry) < 16:
                # the wall clock is not simulated: a run killed by it is repeated alone before anything is said
                retry.append(idx)
                return
            report.harness_errors.append(f"seed {seeds[idx]}: {status}: {str(out)[-800:]}")
            return
        agg["runs"] += 1
        agg["steps"] += out["steps"]
        agg["switches"] += out["switches"]
        agg["ops"] += out["nops"]
        agg["imports"] += out["imports"]
        agg["threads"][out["nthreads"]] += 1
        agg["modes"][out["mode"]] += 1
        agg["hot_hits"] += out["hot_hits"]
        agg["lock_waits"] = agg.get("lock_waits", 0) + out.get("lock_waits", 0)
        agg["probes"].update(out["probes"])
        agg["find_types_checked"] += out["probe"]["find_types_checked"]
        if any(v for k, v in out["probes"].items()):
            agg["inter"].add(out["inter_digest"])
        agg["pairs"].update(tuple(p) for p in out["pairs"])
        if out["viol"]:
            agg["viol_runs"] += 1
            for v in out["viol"]:
                sig = tuple(v["sig"])
                agg["sigs"][sig] += 1
                if sig not in first_by_sig:
                    first_by_sig[sig] = (seeds[idx], out)
        if len(samples) < 4 and out["switches"] >= 2 and out["nthreads"] <= 3:
            samples.append({"seed": out["seed"], "schedule": out["schedule"], "steps": out["steps"], "digest": out["digest"]})

    core.run_batch(_seed_task, seeds, timeout=60.0, deadline=deadline, on_result=on_result)
    for idx in list(retry):
        st, out = core.run_in_child(_seed_task, (seeds[idx],), timeout=300.0)
        on_result(idx, st, out, final=True)
    t_explore = time.time() - t1
    # ---- triage: minimise and confirm one example per signature
    listed = {sig: so for sig, so in first_by_sig.items() if report.match_known(sig) is not None}
    for sig in sorted(listed):
        report.add(sig, "-", f"recorded finding, first seen with seed {listed[sig][0]}")  # nothing to shrink or confirm again
    unlisted = sorted((sig, so) for sig, so in first_by_sig.items() if sig not in listed)
    for sig, (seed, out) in unlisted[:8]:
        spec = explicit_spec(c19.gen_spec(seed), out)
        if sig[0] == "no_progress":
            solo, err = run_solo(dict(spec, step_cap=30_000_000), timeout=400.0)
            if not has_sig(solo, sig):
                report.harness_errors.append(f"seed {seed}: run stalled under load but completed alone ({sig})")
                continue
            small, trials = spec, 0
        else:
            small, trials = minimize(spec, sig)
        path, v, err = confirm_and_write(small, sig, "min")
        if err:
            path, v, err2 = confirm_and_write(spec, sig, "full")
            if err2:
                report.harness_errors.append(f"seed {seed}: violation {sig} {err2}")
                continue
        report.add(sig, path, summarize(v) + f" [seed {seed}, {len(small['threads'])} threads, {len(small['schedule']['switches'])} pre-emptions, {trials} shrink trials]")
    for sig, (seed, out) in unlisted[8:]:
        # still a violation: reported with the seed that shows it, without a minimised replay
        path = core.write_replay(PROP, f"{seed}-{core.digest(list(sig))}-untriaged", {"property": PROP, "seed": seed, "sig": list(sig), "note": "more than 8 distinct signatures in this run; replay by seed"})
        report.add(sig, path, f"{sig} [seed {seed}, not minimised]")
    wall = time.time() - t0
    if not args.no_evidence:
        samples_full = []
        for s in samples:
            spec = c19.gen_spec(s["seed"])
            samples_full.append({"seed": s["seed"], "threads": spec["threads"], "warmup": spec["warmup"], "mode": spec["mode"], "opcode": spec["opcode"], "schedule": s["schedule"], "yield_points": s["steps"], "digest": s["digest"]})
        ev = {
            "property_id": PROP,
            "tier": args.tier,
            "seed": args.seed,
            "level": "exploration",
            "wall_s": round(wall, 2),
            "violations": len(report.unlisted),
            "coverage": {
                "evaluations": agg["runs"],
                "distinct_nontrivial": len(agg["inter"]),
                "rule": "one evaluation = one simulated run: 2-16 real threads on one shared XmlContext, each with a seeded program of pool calls, "
                "scheduled by the baton scheduler with seeded pre-emption at shared-state accesses. distinct_nontrivial = number of distinct "
                "hashes of the (thread, location, next thread) switch sequence among runs that pre-empted at least once inside a function that touches shared state.",
                "samples": samples_full or [{"note": "no small sample in this run"}],
                "seed_range": [seeds[0], seeds[0] + agg["runs"] - 1] if agg["runs"] else [],
                "runs_per_hour": int(agg["runs"] / max(t_explore, 1e-6) * 3600),
                "simulated_time": {"unit": "scheduler yield points (the library has no clock)", "total": agg["steps"]},
                "context_switches": agg["switches"],
                "calls_executed": agg["ops"],
                "import_events": agg["imports"],
                "threads_histogram": {str(k): v for k, v in sorted(agg["threads"].items())},
                "tracing_modes": dict(agg["modes"]),
                "conflict_directed_preemptions": agg["hot_hits"],
                "simulated_lock_waits": agg.get("lock_waits", 0),
                "traced_code_objects": {m: len(c19.codes_for(m)) for m in ("shared", "writers", "all")},
                "probes": dict(agg["probes"]),
                "conflict_pairs": len(agg["pairs"]),
                "index_observations_checked": agg["find_types_checked"],
                "violation_signatures": {"/".join(map(str, k)): v for k, v in agg["sigs"].items()},
                "fault_kinds": {"preemption": agg["switches"], "import_event": agg["imports"]},
                "components": {
                    "real": ["xsdata.formats.dataclass.* (context, builders, parsers, handlers lxml+native, serializers, writers)", "xsdata.formats.converter", "real CPython threads"],
                    "stub": [],
                    "harness": ["baton scheduler (sys.monitoring LINE/INSTRUCTION events)", "pool models and documents under /verif/sim/pool"],
                },
                "setup_s": round(t_setup, 2),
                "explore_s": round(t_explore, 2),
                "known_findings_printed": [k["what"] for k in report.known],
            },
            "assumptions": [
                "thread switches happen at bytecode boundaries; C code (libxml2, expat, dict operations) is atomic between yield points",
                "pre-emption is explored at lines (or bytecodes) of functions that syntactically touch shared state; other functions only in the all-frames swarm fraction",
                "reference results are recomputed from the current tree in pristine processes; the pool under /verif/sim/pool is the workload",
            ],
        }
        core.write_evidence(PROP, ev)
    print(f"[C19] runs={agg['runs']} viol_runs={agg['viol_runs']} distinct_interleavings={len(agg['inter'])} explore={t_explore:.1f}s setup={t_setup:.1f}s", flush=True)
    return report.finish()


def replay(args):
    global _R
    core.reexec_pinned()
    with open(args.replay) as f:
        payload = json.load(f)
    core.bootstrap()
    spec = payload["spec"]
    names = {nm for prog in spec["threads"] for nm in prog if not nm.startswith("import:")} | set(spec.get("warmup", []))
    _R = core.compute_reference(names)
    c19.build_loc_funcs()
    c19.warm_tables()
    out, err = run_solo(spec)
    if err:
        print(f"HARNESS-ERROR: {err}")
        return 2
    print(f"digest={out['digest']} recorded={payload.get('digest')}")
    sig = payload.get("sig")
    hit = [v for v in out["viol"] if sig is None or tuple(v["sig"]) == tuple(sig)]
    if hit:
        print(f"VIOLATION property={PROP} replay={args.replay}")
        print("  " + summarize(hit[0]))
        for s in out["schedule"]["switches"]:
            print(f"  switch: thread {s[0]} at its yield point #{s[1]} -> thread {s[2]}")
        return 1
    print("replay did not reproduce the violation on this tree")
    return 0


def digests(seed, runs):
    """seed -> run digest, for the determinism self-test."""
    global _R
    core.bootstrap()
    _R = core.compute_reference(coverage=True)
    c19.build_loc_funcs()
    c19.warm_tables()
    seeds = seeds_for(seed, runs)
    res = core.run_batch(_seed_task, seeds, timeout=60.0)
    return {str(seeds[i]): (out["digest"] if st == "ok" else f"{st}") for i, st, out in res}
