"""Delta debugging over explicit decision lists."""


class Budget:
    def __init__(self, n):
        self.left = n

    def take(self):
        if self.left <= 0:
            return False
        self.left -= 1
        return True


def ddmin(items, test, budget):
    """Return a smaller list for which test(list) is still True (test(items) is assumed True)."""
    items = list(items)
    n = 2
    while len(items) >= 1:
        if len(items) == 1:
            if budget.take() and test([]):
                return []
            return items
        chunk = max(1, len(items) // n)
        reduced = False
        for i in range(0, len(items), chunk):
            cand = items[:i] + items[i + chunk :]
            if not budget.take():
                return items
            if test(cand):
                items = cand
                n = max(n - 1, 2)
                reduced = True
                break
        if not reduced:
            if chunk == 1:
                break
            n = min(len(items), n * 2)
    return items


def drop_one_at_a_time(items, test, budget):
    items = list(items)
    i = len(items) - 1
    while i >= 0:
        cand = items[:i] + items[i + 1 :]
        if not budget.take():
            break
        if test(cand):
            items = cand
        i -= 1
    return items
