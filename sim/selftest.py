"""Self-tests of the simulators themselves: determinism and sensitivity."""
import json
import os
import subprocess
import sys
import time

from sim import core


def _digests(prop, runs, seed, workers, hashseed):
    env = dict(os.environ)
    env.pop("VERIF_PINNED", None)
    env["VERIF_HASHSEED"] = str(hashseed)
    env["VERIF_WORKERS"] = str(workers)
    cmd = [sys.executable, os.path.join(core.VERIF, "check.py"), "selftest", "digests", "--prop", prop, "--runs", str(runs), "--seed", str(seed)]
    out = subprocess.run(cmd, env=env, capture_output=True, text=True, timeout=1800)
    if out.returncode != 0:
        raise core.HarnessError(f"digest run failed: {out.stderr[-2000:]}")
    line = [l for l in out.stdout.splitlines() if l.startswith("DIGESTS ")][-1]
    return json.loads(line[8:])


def check(args):
    import argparse

    ap = argparse.ArgumentParser()
    ap.add_argument("prop0")
    ap.add_argument("sub")
    ap.add_argument("--prop", default="C19,C14,C15")
    ap.add_argument("--runs", type=int, default=200)
    ap.add_argument("--seed", type=int, default=int(os.environ.get("VERIF_SEED", "0") or 0))
    ap.add_argument("--only", default="")
    a = ap.parse_args(sys.argv[1:])
    if a.sub == "digests":
        core.reexec_pinned()
        mod = __import__(f"sim.{a.prop.lower()}_check", fromlist=["x"])
        print("DIGESTS " + json.dumps(mod.digests(a.seed, a.runs)))
        return 0
    if a.sub == "determinism":
        bad = 0
        summary = {}
        for prop in a.prop.split(","):
            t0 = time.time()
            base = _digests(prop, a.runs, a.seed, 16, 0)
            again = _digests(prop, a.runs, a.seed, 16, 0)
            one = _digests(prop, max(10, a.runs // 8), a.seed, 1, 0)
            other = _digests(prop, a.runs, a.seed, 5, 12345)
            d1 = [k for k in base if base[k] != again.get(k)]
            d2 = [k for k in one if base.get(k) != one[k]]
            d3 = [k for k in base if base[k] != other.get(k)]
            summary[prop] = {"seeds": len(base), "same_config_diffs": len(d1), "one_worker_diffs": len(d2), "other_hashseed_diffs": len(d3), "wall_s": round(time.time() - t0, 1)}
            print(f"[selftest] {prop}: {summary[prop]}")
            if d1 or d2:
                bad += 1
                print(f"[selftest] {prop}: NON-DETERMINISTIC seeds {d1[:5]} {d2[:5]}")
            if d3:
                print(f"[selftest] {prop}: digests depend on the string hash seed for seeds {d3[:5]} (the hash seed is pinned and part of the replay state)")
        path = os.path.join(core.VERIF, "evidence", "selftest_determinism.json")
        os.makedirs(os.path.dirname(path), exist_ok=True)
        with open(path, "w") as f:
            json.dump(summary, f, indent=1)
        return 2 if bad else 0
    if a.sub == "sensitivity":
        from sim import sensitivity

        return sensitivity.main(a)
    print("usage: check selftest determinism|sensitivity|digests")
    return 2


def replay(args):
    return 2
