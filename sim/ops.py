"""Pool operations: what a simulated caller can do with shared xsdata objects.

Every operation is a named closure `fn(env, fault)`; names are stable strings so that
replay files do not depend on generator code. Nothing here is a dataclass on purpose:
XmlContext indexes every dataclass in the process.
"""
import io
import json
import logging
import sys
import threading
import warnings

from sim.canon import canon, canon_exc
from sim.simio import InjectedInterrupt, SimReader, SimWriter

CAP = threading.local()
FAULT_SLOT = threading.local()
_installed = False


def install_capture():
    """Process-wide warning/log capture into per-thread lists (catch_warnings is not thread safe)."""
    global _installed
    if _installed:
        return
    _installed = True
    warnings.simplefilter("always")

    def showwarning(message, category, filename, lineno, file=None, line=None):
        lst = getattr(CAP, "w", None)
        if lst is not None:
            lst.append(f"{category.__name__}: {message}")

    warnings.showwarning = showwarning

    class H(logging.Handler):
        def emit(self, record):
            lst = getattr(CAP, "l", None)
            if lst is not None:
                try:
                    lst.append(f"{record.levelname}: {record.getMessage()}")
                except Exception as e:  # pragma: no cover
                    lst.append(f"LOGERR: {e!r}")

    from xsdata.logger import logger

    logger.handlers[:] = [H()]
    logger.propagate = False
    logger.setLevel(logging.DEBUG)


# ---------------------------------------------------------------- callbacks with fault slots
def _maybe_fault(where):
    slot = getattr(FAULT_SLOT, "f", None)
    if slot and slot.get("t") == where:
        slot["n"] = slot.get("n", 0) + 1
        if slot["n"] == slot.get("raise_at"):
            slot["fired"] = True
            if slot.get("raise_kind") == "interrupt":
                raise InjectedInterrupt(f"injected cancellation in {where} #{slot['n']}")
            raise RuntimeError(f"injected {where} failure #{slot['n']}")


def faulty_class_factory(cls, params):
    _maybe_fault("factory")
    return cls(**params)


def faulty_load(fp, *a, **kw):
    _maybe_fault("load")
    return json.load(fp, *a, **kw)


def faulty_dump(obj, fp, *a, **kw):
    _maybe_fault("dump")
    return json.dump(obj, fp, *a, **kw)


# ---------------------------------------------------------------- tools
def parser_config(name):
    from xsdata.formats.dataclass.parsers.config import ParserConfig

    if name == "default":
        return ParserConfig()
    if name == "lenient":
        return ParserConfig(fail_on_unknown_properties=False)
    if name == "strictattr":
        return ParserConfig(fail_on_unknown_attributes=True)
    if name == "strictconv":
        return ParserConfig(fail_on_converter_warnings=True)
    if name == "factory":
        return ParserConfig(class_factory=faulty_class_factory)
    if name == "xinclude":
        return ParserConfig(process_xinclude=True)
    if name == "loaddtd":
        return ParserConfig(load_dtd=True)
    raise KeyError(name)


def serializer_config(name):
    from xsdata.formats.dataclass.serializers.config import SerializerConfig

    if name == "default":
        return SerializerConfig()
    if name == "indent":
        return SerializerConfig(indent="  ")
    if name == "nodecl":
        return SerializerConfig(xml_declaration=False)
    if name == "skipdef":
        return SerializerConfig(ignore_default_attributes=True)
    if name == "schemaloc":
        return SerializerConfig(schema_location="urn:basic basic.xsd", no_namespace_schema_location="nons.xsd")
    if name == "globalns":
        from sim.pool import m_edge

        return SerializerConfig(globalns=dict(m_edge.GLOBALNS))
    if name == "globalns2":
        from sim.pool import m_edge

        return SerializerConfig(globalns=dict(m_edge.GLOBALNS2))
    if name == "latin1":
        return SerializerConfig(encoding="ISO-8859-1", xml_version="1.1", indent="\t")
    raise KeyError(name)


NS_MAPS = {
    "none": None,
    "m1": {"bb": "urn:basic", "aa": "urn:a", "xx": "urn:x", None: "urn:c", "ww": "urn:w"},
    "m2": {None: "urn:basic", "b2": "urn:b", "": "urn:a"},
}


def _handlers():
    from xsdata.formats.dataclass.parsers.handlers import LxmlEventHandler, XmlEventHandler

    return {"lxml": LxmlEventHandler, "native": XmlEventHandler}


def _writers():
    from xsdata.formats.dataclass.serializers.writers import LxmlEventWriter, XmlEventWriter

    return {"lxml": LxmlEventWriter, "native": XmlEventWriter}


def make_user_parser_class():
    from xsdata.formats.dataclass.parsers import UserXmlParser

    class HookParser(UserXmlParser):
        """Hooks are looked up per (event, qname) and memoised in hooks_cache."""

        # events are kept on the parser instance, per calling thread: hooks are user code that may use
        # instance state, and a hook bound to another instance would record into the wrong parser
        def _events(self):
            store = self.__dict__.setdefault("_seen_by_thread", {})
            return store.setdefault(threading.get_ident(), [])

        def start_name(self, attrs):
            self._events().append(("start", "name", len(attrs)))

        def end_name(self, obj):
            self._events().append(("end", "name", canon(obj)))

        def end_item(self, obj):
            self._events().append(("end", "item", type(obj).__name__))

        def end_x(self, obj):
            self._events().append(("end", "x", canon(obj)))

        def end_label(self, obj):
            self._events().append(("end", "label", canon(obj)))

    return HookParser


_HOOK_CLS = None


def make_tool(key, context):
    global _HOOK_CLS
    from xsdata.formats.dataclass import parsers, serializers

    kind = key[0]
    if kind == "xp":
        return parsers.XmlParser(config=parser_config(key[2]), context=context, handler=_handlers()[key[1]])
    if kind == "up":
        if _HOOK_CLS is None:
            _HOOK_CLS = make_user_parser_class()
        return _HOOK_CLS(config=parser_config("default"), context=context, handler=_handlers()[key[1]])
    if kind == "tp":
        return parsers.TreeParser(context=context, handler=_handlers()[key[1]])
    if kind == "xs":
        return serializers.XmlSerializer(config=serializer_config(key[2]), context=context, writer=_writers()[key[1]])
    if kind == "ts":
        from xsdata.formats.dataclass.serializers.tree import TreeSerializer

        return TreeSerializer(config=serializer_config(key[1]), context=context)
    if kind == "jp":
        if key[1] == "factory":
            return parsers.JsonParser(config=parser_config("factory"), context=context, load_factory=faulty_load)
        return parsers.JsonParser(config=parser_config(key[1]), context=context)
    if kind == "js":
        if key[1] == "factory":
            return serializers.JsonSerializer(config=serializer_config("default"), context=context, dump_factory=faulty_dump)
        return serializers.JsonSerializer(config=serializer_config(key[1]), context=context)
    if kind == "dd":
        return parsers.DictDecoder(config=parser_config(key[1]), context=context)
    if kind == "de":
        factory = dict if key[2] == "dict" else serializers.DictFactory.FILTER_NONE
        return serializers.DictEncoder(config=serializer_config(key[1]), context=context, dict_factory=factory)
    if kind == "py":
        return serializers.PycodeSerializer(context=context)
    raise KeyError(key)


class Env:
    """A set of long-lived instances: one context and the tools bound to it."""

    def __init__(self):
        from xsdata.formats.dataclass.context import XmlContext

        self.context = XmlContext()
        self.tools = {}
        self._context2 = None

    @property
    def context2(self):
        """A second long-lived context of the same callers, with other name generators."""
        if self._context2 is None:
            from xsdata.formats.dataclass.context import XmlContext
            from xsdata.utils import text

            self._context2 = XmlContext(element_name_generator=text.camel_case, attribute_name_generator=text.kebab_case)
        return self._context2

    def tool(self, key):
        t = self.tools.get(key)
        if t is None:
            if key[0].endswith("2"):
                t = make_tool((key[0][:-1],) + tuple(key[1:]), self.context2)
            else:
                t = make_tool(key, self.context)
            self.tools[key] = t
        return t

    def prepare(self, ops):
        for op in ops:
            if op.tool:
                self.tool(op.tool)


class Op:
    __slots__ = ("name", "kind", "needs", "tool", "fn", "faults", "group", "doc", "ck")

    def __init__(self, name, kind, fn, tool=None, needs=None, faults=(), group="", doc=None, ck=None):
        self.ck = ck
        self.name = name
        self.kind = kind
        self.fn = fn
        self.tool = tool
        self.needs = needs
        self.faults = faults  # fault targets this op supports: reader / writer / factory / load / dump
        self.group = group
        self.doc = doc

    def __repr__(self):
        return f"Op({self.name})"


def scribble(value, _seen=None, _depth=0):
    """What a caller may do with a returned object afterwards: change its containers in place.
    Returns the number of containers changed."""
    import dataclasses
    import enum

    if _seen is None:
        _seen = set()
    if id(value) in _seen or _depth > 40 or isinstance(value, (str, bytes, int, float, type, enum.Enum)) or value is None:
        return 0
    _seen.add(id(value))
    n = 0
    if isinstance(value, list):
        for item in list(value):
            n += scribble(item, _seen, _depth + 1)
        value.append("@scribble")
        return n + 1
    if isinstance(value, dict):
        for item in list(value.values()):
            n += scribble(item, _seen, _depth + 1)
        value["@scribble"] = "1"
        return n + 1
    if isinstance(value, tuple):
        for item in value:
            n += scribble(item, _seen, _depth + 1)
        return n
    if dataclasses.is_dataclass(value):
        for f in dataclasses.fields(value):
            n += scribble(getattr(value, f.name, None), _seen, _depth + 1)
    return n


CONFIG_SLOT = {"xp": 2, "jp": 1, "dd": 1, "xs": 2, "js": 1, "de": 1, "ts": 1}


def reconfigure(env, key, cfg, how):
    """The caller changes the configuration of a live tool; the tool is then filed under the key of
    the configuration it now has. Returns the new key, or None when the tool does not exist."""
    import dataclasses

    tool = env.tools.get(key)
    if tool is None:
        return None
    slot = CONFIG_SLOT[key[0]]
    new_key = key[:slot] + (cfg,) + key[slot + 1 :]
    fresh = parser_config(cfg) if key[0] in ("xp", "jp", "dd") else serializer_config(cfg)
    if how == "replace":
        tool.config = fresh
    else:
        for f in dataclasses.fields(fresh):
            setattr(tool.config, f.name, getattr(fresh, f.name))
    del env.tools[key]
    env.tools[new_key] = tool
    return new_key


def execute(op, env, fault=None, post=None):
    """Run one operation and return its canonical record."""
    CAP.w = []
    CAP.l = []
    FAULT_SLOT.f = dict(fault) if fault else None
    rec = {"op": op.name}
    try:
        value = op.fn(env, FAULT_SLOT.f)
        rec["k"] = "ok"
        rec["v"] = canon(value)
        if post is not None:
            rec["post"] = post(value)
    except BaseException as e:  # InjectedInterrupt is a KeyboardInterrupt
        if isinstance(e, (SystemExit, GeneratorExit)) or (isinstance(e, KeyboardInterrupt) and not isinstance(e, InjectedInterrupt)):
            raise
        rec["k"] = "exc"
        rec["v"] = "%s: %s" % canon_exc(e)
    rec["w"] = CAP.w
    rec["l"] = CAP.l
    if FAULT_SLOT.f is not None:
        rec["fired"] = bool(FAULT_SLOT.f.get("fired"))
    CAP.w = None
    CAP.l = None
    FAULT_SLOT.f = None
    return rec


def same(a, b):
    return a["k"] == b["k"] and a["v"] == b["v"] and a["w"] == b["w"] and a["l"] == b["l"]


# When a dict, the callers of a run keep one instance of every object they serialize and of every decoded
# document they hand to DictDecoder, and pass that same instance on every call (set per run by the engines).
SHARED_INPUTS = None


# When a dict, the callers of a run keep ONE prefix map: parsers record into it, serializers get the very same object.
SHARED_NSMAP = None


def _input(key, make):
    if SHARED_INPUTS is None:
        return make()
    if key not in SHARED_INPUTS:
        SHARED_INPUTS[key] = make()
    return SHARED_INPUTS[key]


# ---------------------------------------------------------------- op builders
def _resolve_clazz(key):
    from sim.pool.catalog import resolve_class

    if key is None:
        return None
    if key.startswith("list:"):
        return list[resolve_class(key[5:])]
    return resolve_class(key)


def _reader_for(data, fault):
    r = SimReader(
        data,
        chunks=fault.get("chunks"),
        eof_at=fault.get("eof_at"),
        raise_at=fault.get("raise_at"),
        raise_kind=fault.get("raise_kind", "oserror"),
    )
    return r


def op_parse_xml(docname, data, clazz_key, handler, cfg, needs, group):
    tool = ("xp", handler, cfg)

    def fn(env, fault):
        p = env.tool(tool)
        clazz = _resolve_clazz(clazz_key)
        if fault and fault.get("t") == "reader":
            r = _reader_for(data, fault)
            try:
                return p.parse(r, clazz)
            finally:
                fault["fired"] = r.fired or (fault.get("eof_at") is not None and fault["eof_at"] < len(data)) or bool(fault.get("chunks"))
        if SHARED_NSMAP is not None:
            return p.from_bytes(data, clazz, ns_map=SHARED_NSMAP)
        return p.from_bytes(data, clazz)

    faults = ("reader", "factory") if cfg == "factory" else ("reader",)
    return Op(f"parse_xml:{handler}:{docname}:{cfg}", "parse_xml", fn, tool, needs, faults, group, docname)


def op_parse_xml_tree(docname, data, clazz_key, handler, needs, group):
    """The document arrives as an already built tree (lxml ElementTree / xml.etree Element): the handlers
    walk it instead of pulling bytes; the parser instance is the one the byte-source operations use."""
    tool = ("xp", handler, "default")

    def fn(env, fault):
        p = env.tool(tool)

        def build():
            if handler == "lxml":
                from lxml import etree

                return etree.fromstring(data).getroottree()
            import xml.etree.ElementTree as ET

            return ET.fromstring(data)

        # a caller that keeps its tree passes the same tree again (SHARED_INPUTS)
        return p.parse(_input(("tree", handler, docname), build), _resolve_clazz(clazz_key))

    return Op(f"parse_xml:{handler}:{docname}:treesrc", "parse_xml", fn, tool, needs, (), group, docname)


def op_parse_xml_file(docname, relpath, clazz_key, handler, cfg, needs, group):
    """The document is a file: the handlers open it themselves, and XInclude references in it are
    resolved relative to its location."""
    import pathlib

    tool = ("xp", handler, cfg)
    path = pathlib.Path(__file__).resolve().parent / "pool" / relpath

    def fn(env, fault):
        return env.tool(tool).from_path(path, _resolve_clazz(clazz_key))

    return Op(f"parse_xml:{handler}:{docname}:{cfg}", "parse_xml", fn, tool, needs, (), group, docname)


def op_namegen(objname, factory, xml_doc, clazz_key, group):
    """The same object and a document of its class through tools bound to the callers' second context
    (camelCase element names, kebab-case attribute names)."""
    out = []

    def ser(kind, tool):
        def fn(env, fault):
            t = env.tool(tool)
            obj = _input(("obj", "namegen:" + objname), factory)
            return t.encode(obj) if kind == "dict_encode" else t.render(obj)

        return Op(f"{kind}:{objname}:namegen:{tool[0]}", kind, fn, tool, None, (), group)

    out.append(ser("ser_json", ("js2", "default")))
    out.append(ser("dict_encode", ("de2", "default", "dict")))
    out.append(ser("tree_ser", ("ts2", "default")))
    for w in ("lxml", "native"):
        tool = ("xs2", w, "default")

        def fn(env, fault, tool=tool):
            return env.tool(tool).render(_input(("obj", "namegen:" + objname), factory))

        out.append(Op(f"ser_xml:{w}:{objname}:namegen:none", "ser_xml", fn, tool, None, (), group))
    for h in ("lxml", "native"):
        tool = ("xp2", h, "default")

        def pfn(env, fault, tool=tool):
            return env.tool(tool).from_bytes(xml_doc, _resolve_clazz(clazz_key))

        out.append(Op(f"parse_xml:{h}:{objname}:namegen", "parse_xml", pfn, tool, None, (), group, objname))
    return out


def op_user_parse(docname, data, clazz_key, handler, needs, group):
    tool = ("up", handler)

    def fn(env, fault):
        p = env.tool(tool)
        p._events().clear()
        obj = p.from_bytes(data, _resolve_clazz(clazz_key))
        return (obj, list(p._events()))

    return Op(f"user_parse:{handler}:{docname}", "user_parse", fn, tool, needs, (), group, docname)


def op_tree_parse(docname, data, handler, needs, group):
    tool = ("tp", handler)

    def fn(env, fault):
        from xsdata.formats.dataclass.models.generics import AnyElement

        return env.tool(tool).from_bytes(data, AnyElement)

    return Op(f"tree_parse:{handler}:{docname}", "tree_parse", fn, tool, needs, (), group, docname)


def op_ser_xml(objname, factory, writer, cfg, nsmap, needs, group):
    tool = ("xs", writer, cfg)

    def fn(env, fault):
        s = env.tool(tool)
        ns_map = NS_MAPS[nsmap]
        ns_map = dict(ns_map) if ns_map is not None else None
        if ns_map is None and SHARED_NSMAP is not None:
            ns_map = SHARED_NSMAP  # the caller's long-lived map, the same object every time
        obj = _input(("obj", objname), factory)
        if fault and fault.get("t") == "writer":
            w = SimWriter(raise_at=fault.get("raise_at"), raise_kind=fault.get("raise_kind", "enospc"))
            try:
                s.write(w, obj, ns_map)
            finally:
                fault["fired"] = w.fired
            return w.getvalue()
        return s.render(obj, ns_map)

    return Op(f"ser_xml:{writer}:{objname}:{cfg}:{nsmap}", "ser_xml", fn, tool, needs, ("writer",), group)


def op_tree_ser(objname, factory, cfg, needs, group):
    tool = ("ts", cfg)

    def fn(env, fault):
        return env.tool(tool).render(_input(("obj", objname), factory))

    return Op(f"tree_ser:{objname}:{cfg}", "tree_ser", fn, tool, needs, (), group)


def op_ser_json(objname, factory, cfg, needs, group):
    tool = ("js", cfg)

    def fn(env, fault):
        return env.tool(tool).render(_input(("obj", objname), factory))

    return Op(f"ser_json:{objname}:{cfg}", "ser_json", fn, tool, needs, ("dump",) if cfg == "factory" else (), group)


def op_dict_encode(objname, factory, cfg, dfac, needs, group):
    tool = ("de", cfg, dfac)

    def fn(env, fault):
        return env.tool(tool).encode(_input(("obj", objname), factory))

    return Op(f"dict_encode:{objname}:{cfg}:{dfac}", "dict_encode", fn, tool, needs, (), group)


def op_pycode(objname, factory, needs, group):
    tool = ("py",)

    def fn(env, fault):
        return env.tool(tool).render(_input(("obj", objname), factory))

    return Op(f"pycode:{objname}", "pycode", fn, tool, needs, (), group)


def op_parse_json(docname, text, clazz_key, cfg, needs, group):
    tool = ("jp", cfg)
    data = text.encode()

    def fn(env, fault):
        p = env.tool(tool)
        clazz = _resolve_clazz(clazz_key)
        if fault and fault.get("t") == "reader":
            r = _reader_for(data, fault)
            try:
                return p.parse(r, clazz)
            finally:
                fault["fired"] = r.fired or (fault.get("eof_at") is not None and fault["eof_at"] < len(data))
        return p.from_bytes(data, clazz)

    faults = ("reader", "factory", "load") if cfg == "factory" else ("reader",)
    return Op(f"parse_json:{docname}:{cfg}", "parse_json", fn, tool, needs, faults, group, docname)


def op_dict_decode(docname, text, clazz_key, cfg, needs, group):
    tool = ("dd", cfg)

    def fn(env, fault):
        return env.tool(tool).decode(_input(("doc", docname), lambda: json.loads(text)), _resolve_clazz(clazz_key))

    return Op(f"dict_decode:{docname}:{cfg}", "dict_decode", fn, tool, needs, (), group, docname)


def op_find_type(qname, needs):
    def fn(env, fault):
        return env.context.find_type(qname)

    return Op(f"ctx_find_type:{qname}", "ctx", fn, None, needs, (), "ctx")


def op_find_types(qname, needs):
    def fn(env, fault):
        return list(env.context.find_types(qname))

    return Op(f"ctx_find_types:{qname}", "ctx", fn, None, needs, (), "ctx")


def op_find_by_fields(names, needs):
    def fn(env, fault):
        return env.context.find_type_by_fields(set(names))

    return Op(f"ctx_find_by_fields:{'+'.join(names)}", "ctx", fn, None, needs, (), "ctx")


def op_build_recursive(clazz_key, needs):
    def fn(env, fault):
        clazz = _resolve_clazz(clazz_key)
        env.context.build_recursive(clazz)
        meta = env.context.build(clazz)
        return (meta.qname, sorted(v.qname for v in meta.get_all_vars()))

    return Op(f"ctx_build_recursive:{clazz_key}", "ctx", fn, None, needs, (), "ctx")


def op_meta(clazz_key, parent_ns, needs):
    """Binding metadata as seen through fetch() with an inherited namespace."""

    def fn(env, fault):
        meta = env.context.fetch(_resolve_clazz(clazz_key), parent_ns)
        return (meta.qname, [(v.name, v.qname, tuple(v.namespaces)) for v in meta.get_all_vars()])

    return Op(f"ctx_meta:{clazz_key}:{parent_ns}", "ctx", fn, None, needs, (), "ctx")


def op_ctx_reset():
    """XmlContext.reset(): every cache is dropped; calls that are under way or follow behave as before."""

    def fn(env, fault):
        env.context.reset()
        return None

    return Op("ctx_reset:context", "ctx", fn, None, None, (), "ctx")


def group_of(clazz_key):
    return clazz_key.split(".")[0] if clazz_key else "noclass"


def build_ops(gen_docs=None):
    """Return the full operation list. `gen_docs` holds serializer-produced documents
    (made by the prep child); operations on them are only created when present."""
    from sim.pool import catalog as C

    gen_docs = gen_docs or {"xml": {}, "json": {}}
    ops = []
    handlers = ("lxml", "native")
    # hand-written, fitting documents
    for name, (data, ck, needs) in C.XML.items():
        g = group_of(ck)
        for h in handlers:
            ops.append(op_parse_xml(name, data, ck, h, "default", needs, g))
            ops.append(op_parse_xml(name, data, ck, h, "factory", needs, g))
        ops.append(op_parse_xml(name, data, ck, "lxml", "strictattr", needs, g))
        ops.append(op_parse_xml(name, data, ck, "native", "strictconv", needs, g))
        if ck is not None:
            ops.append(op_user_parse(name, data, ck, "lxml", needs, g))
        ops.append(op_tree_parse(name, data, "native", needs, g))
        for h in handlers:
            ops.append(op_parse_xml_tree(name, data, ck, h, needs, g))
    for name, (relpath, ck, needs) in C.XML_FILES.items():
        for h in handlers:
            ops.append(op_parse_xml_file(name, relpath, ck, h, "xinclude", needs, group_of(ck)))
            ops.append(op_parse_xml_file(name, relpath, ck, h, "default", needs, group_of(ck)))
    # documents that do not fit
    for name, (data, ck, needs) in C.BAD_XML.items():
        g = group_of(ck)
        for h in handlers:
            ops.append(op_parse_xml(name, data, ck, h, "default", needs, g))
            ops.append(op_parse_xml(name, data, ck, h, "lenient", needs, g))
        ops.append(op_parse_xml(name, data, ck, "lxml", "strictattr", needs, g))
        ops.append(op_parse_xml(name, data, ck, "native", "strictconv", needs, g))
    # serializer-produced documents
    for name, (data, ck, needs) in gen_docs["xml"].items():
        g = group_of(ck)
        for h in handlers:
            ops.append(op_parse_xml(name, data, ck, h, "default", needs, g))
    # objects
    for name, (factory, ck) in C.OBJS.items():
        needs = C.OBJ_NEEDS.get(name)
        g = group_of(ck)
        generated = g == "m_gen"
        for w in ("lxml", "native"):
            ops.append(op_ser_xml(name, factory, w, "default", "none", needs, g))
            if not generated or w == "native":
                ops.append(op_ser_xml(name, factory, w, "indent", "m1", needs, g))
        if not generated:
            ops.append(op_ser_xml(name, factory, "native", "nodecl", "m2", needs, g))
            ops.append(op_ser_xml(name, factory, "lxml", "skipdef", "none", needs, g))
            ops.append(op_ser_xml(name, factory, "native", "schemaloc", "none", needs, g))
            ops.append(op_ser_xml(name, factory, "lxml", "latin1", "m2", needs, g))
            ops.append(op_ser_json(name, factory, "factory", needs, g))
            ops.append(op_ser_json(name, factory, "indent", needs, g))
            ops.append(op_dict_encode(name, factory, "skipdef", "filter_none", needs, g))
        ops.append(op_tree_ser(name, factory, "default", needs, g))
        ops.append(op_ser_json(name, factory, "default", needs, g))
        ops.append(op_dict_encode(name, factory, "default", "dict", needs, g))
        ops.append(op_pycode(name, factory, needs, g))
    for name, (factory, ck) in C.OBJS_GLOBALNS.items():
        g = group_of(ck)
        for w in ("lxml", "native"):
            ops.append(op_ser_xml(name, factory, w, "globalns", "none", None, g))
        ops.append(op_tree_ser(name, factory, "globalns", None, g))
        ops.append(op_ser_json(name, factory, "globalns", None, g))
        ops.append(op_dict_encode(name, factory, "globalns", "dict", None, g))
    for name, (factory, ck) in C.OBJS_GLOBALNS2.items():
        g = group_of(ck)
        ops.append(op_ser_xml(name, factory, "lxml", "globalns2", "none", None, g))
        ops.append(op_ser_json(name, factory, "globalns2", None, g))
    for name, (factory, ck, xml_doc) in C.OBJS_NAMEGEN.items():
        ops.extend(op_namegen(name, factory, xml_doc, ck, group_of(ck)))
    # JSON
    for name, (text, ck, needs) in list(C.JSON.items()) + list(C.BAD_JSON.items()) + list(gen_docs["json"].items()):
        g = group_of(ck[5:] if ck and ck.startswith("list:") else ck)
        ops.append(op_parse_json(name, text, ck, "default", needs, g))
        if name in C.JSON or name in C.BAD_JSON:
            ops.append(op_parse_json(name, text, ck, "factory", needs, g))
            ops.append(op_parse_json(name, text, ck, "lenient", needs, g))
        if name != "bjs_syntax":
            ops.append(op_dict_decode(name, text, ck, "default", needs, g))
    # context
    for q, needs in C.QNAMES:
        ops.append(op_find_type(q, needs))
        ops.append(op_find_types(q, needs))
    for names, needs in C.FIELD_SETS:
        ops.append(op_find_by_fields(names, needs))
    for ck in ("m_ns.ParentA", "m_ns.ParentB", "m_ns.TreeA", "m_ns.TreeB", "m_xsi.Zoo", "m_compound.Choice", "m_basic.Order"):
        ops.append(op_build_recursive(ck, None))
    for ck in ("m_ns.Child", "m_ns.Mid", "m_ns.Node"):
        for pns in (None, "urn:a", "urn:b"):
            ops.append(op_meta(ck, pns, None))
    ops.append(op_ctx_reset())
    # the class each operation is about (None for class-less lookups)
    doc_ck = {}
    for table in (C.XML, C.XML_FILES, C.BAD_XML, gen_docs["xml"], C.JSON, C.BAD_JSON, gen_docs["json"]):
        for name, (_, ck, _) in table.items():
            doc_ck[name] = ck
    obj_ck = {name: ck for name, (_, ck) in list(C.OBJS.items()) + list(C.OBJS_GLOBALNS.items()) + list(C.OBJS_GLOBALNS2.items()) + [(n, (f, ck)) for n, (f, ck, _) in C.OBJS_NAMEGEN.items()]}
    for op in ops:
        parts = op.name.split(":")
        if op.kind == "parse_xml":
            op.ck = doc_ck.get(parts[2])
        elif op.kind in ("user_parse", "tree_parse"):
            op.ck = doc_ck.get(parts[2])
        elif op.kind in ("parse_json", "dict_decode"):
            op.ck = doc_ck.get(parts[1])
        elif op.kind in ("ser_xml",):
            op.ck = obj_ck.get(parts[2])
        elif op.kind in ("tree_ser", "ser_json", "dict_encode", "pycode"):
            op.ck = obj_ck.get(parts[1])
    names = [o.name for o in ops]
    assert len(names) == len(set(names)), [n for n in names if names.count(n) > 1][:5]
    return ops


def make_gen_docs():
    """Executed in the prep child only: serializer-produced documents for every pool object."""
    from sim.pool import catalog as C

    out = {"xml": {}, "json": {}}
    for name, (factory, ck) in C.OBJS.items():
        needs = C.OBJ_NEEDS.get(name)
        env = Env()  # fresh instances per object: generated documents must not depend on history
        try:
            xml = env.tool(("xs", "lxml", "default")).render(factory())
            root = None if name.startswith("derived") else ck
            out["xml"]["gen_" + name] = (xml.encode(), root, needs)
        except Exception:
            pass
        try:
            js = env.tool(("js", "default")).render(factory())
            if name.startswith("derived"):
                continue
            out["json"]["genjs_" + name] = (js, ck, needs)
        except Exception:
            pass
    return out
