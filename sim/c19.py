"""C19: a shared binding context is safe under concurrent use.

One cold (or warmed) XmlContext, shared tools, N real threads driven by sim.sched;
oracle = every call returns what it returns alone in a pristine process (table R),
plus an index-integrity probe at XmlContext.find_types and a bounded-progress cap.
"""
import random
import sys
import threading
import time

from sim import core
from sim import ops as O
from sim import sched as S

PROP = "C19"
GROUPS = ["m_basic", "m_ns", "m_same1", "m_same2", "m_xsi", "m_wild", "m_compound", "m_edge", "fx", "m_gen", "m_gen", "noclass", "ctx"]
MODES = [("shared", False)] * 6 + [("writers", False)] * 6 + [("all", False)] * 2 + [("shared", True)] * 5 + [("writers", True)] * 4
THREAD_COUNTS = [2, 2, 2, 2, 3, 3, 3, 4, 4, 5, 6, 8, 10, 12, 16]

_codes_cache = {}


def codes_for(mode):
    if not _codes_cache:
        allc = S.xsdata_code_objects()
        _codes_cache["all"] = allc
        _codes_cache["shared"] = S.shared_code_objects(allc)
        _codes_cache["writers"] = _codes_cache["shared"] | S.writer_code_objects(allc)
    return _codes_cache[mode]


_named_codes = {}


def codes_naming(name):
    """Library functions that name the given module-level container."""
    if name not in _named_codes:
        _named_codes[name] = {code for code in codes_for("all") if name in code.co_names and code.co_name != "<module>"}
    return _named_codes[name]


def gen_container_directed(seed, rng):
    """Bytecode-level pre-emption confined to the functions that name one module-level container (a pool, a registry,
    a table), in calls that execute those functions: a check-then-act on such a container sits inside one expression."""
    globs = sorted(S._mutable_globals())
    rng.shuffle(globs)
    for g in globs:
        codes = codes_naming(g)
        if not codes:
            continue
        lines = {S.short_loc(code, ln) for code in codes for _, _, ln in code.co_lines() if ln is not None}
        users = sorted(n for n, cov in core.Z.cov.items() if cov & lines and not core.Z.op_by_name[n].needs)
        if len(users) < 1:
            continue
        n = rng.choice([2, 2, 3, 3, 4])
        same_kind = rng.random() < 0.6
        a = rng.choice(users)
        pool = [u for u in users if core.Z.op_by_name[u].kind == core.Z.op_by_name[a].kind] if same_kind else users
        threads = [[a]] + [[rng.choice(pool)] for _ in range(n - 1)]
        warm = [rng.choice(pool)] if rng.random() < 0.7 else []
        return {
            "seed": seed,
            "threads": threads,
            "warmup": warm,
            "shared_tools": rng.random() < 0.5,
            "mode": "named:" + g,
            "opcode": True,
            "p": rng.choice([0.1, 0.25, 0.5]),
            "loc_cap": rng.choice([1, 2, 4]),
            "max_switches": rng.choice([2, 3, 4, 8]),
            "strategy": "container-directed",
        }
    return None


_loc_codes = {}


def codes_with(locs):
    """Code objects whose line table contains one of the given locations."""
    if not _loc_codes:
        for code in codes_for("all"):
            for _, _, line in code.co_lines():
                if line is not None:
                    _loc_codes.setdefault(S.short_loc(code, line), set()).add(code)
    out = set()
    for loc in locs:
        out |= _loc_codes.get(loc, set())
    return out


_lines_cache = {}


def lines_for(mode):
    if mode not in _lines_cache:
        _lines_cache[mode] = S.line_table(codes_for(mode))
    return _lines_cache[mode]


def current_M(upper=False):
    """Late modules imported so far: the completed ones, with upper=True also those being imported right now."""
    from sim.pool import catalog as C

    have = core.LATE_DONE | (core.LATE_BUSY if upper else set())
    return tuple(k for k in C.LATE if k in have)


# ---------------------------------------------------------------- generation
_by_group = {}


def _index_ops():
    if not _by_group:
        for op in core.Z.ops:
            _by_group.setdefault(op.group, []).append(op)
    return _by_group


_first_index = {}


def first_use_index():
    """line -> operations that execute it only on first use (lazy initialisation code)."""
    if not _first_index and core.Z.cov_first:
        table = lines_for("all")
        for name in sorted(core.Z.cov_first):
            op = core.Z.op_by_name[name]
            if op.needs:
                continue
            for loc in core.Z.cov_first[name] & table:
                _first_index.setdefault(loc, []).append(name)
    return _first_index


def warm_tables():
    """Fill every lookup table in the zygote so that forked runs do not recompute them."""
    for mode in ("shared", "writers", "all"):
        lines_for(mode)
    codes_with(())
    first_use_index()
    _index_ops()
    write_ops()
    ops_of_tool(None)
    iter_lines()
    ops_of_class(None)
    ops_by_iter_line()
    twin_classes()
    gwrite_tables()


_twins = {}


def twin_classes():
    """class key -> keys of the pool classes that have the same class name in another module (or factory call)."""
    if not _twins:
        from sim.pool import catalog as C

        by_name = {}
        for ck, cls in C.CLASSES.items():
            by_name.setdefault(cls.__name__, []).append(ck)
        for cks in by_name.values():
            if len(cks) > 1:
                for ck in cks:
                    _twins[ck] = [o for o in cks if o != ck]
        _twins.setdefault("", [])
    return _twins


def gen_directed(seed, rng):
    """Two or more threads make their *first* use of the same lazily initialised state; pre-empt inside it.

    Hot lines are drawn from the per-call coverage of the reference pass: lines a call executes on cold
    instances but not on warm ones, preferably inside functions that also run warm (check-then-build, memo fill)."""
    index = first_use_index()
    if not index:
        return None
    names = [o.name for o in core.Z.ops if not o.needs and core.Z.cov_first.get(o.name)]
    a = rng.choice(names)
    from sim.pool import catalog as _C0

    if rng.random() < 0.06:
        # a share of the directed runs is about the classes whose behaviour follows a late converter registration
        l3 = [nm for nm in names if core.Z.op_by_name[nm].ck in _C0.L3_SENSITIVE]
        if l3:
            a = rng.choice(l3)
    table = lines_for("all")
    lazy = sorted(core.Z.cov_lazy.get(a, frozenset()) & table)
    first = sorted(core.Z.cov_first[a] & lines_for("writers"))
    cands = lazy if (lazy and rng.random() < 0.8) else first
    if not cands:
        return None
    h = rng.choice(cands)
    hot = [h]
    if rng.random() < 0.4:
        hot += rng.sample(cands, min(len(cands), rng.choice([1, 2])))
    r = rng.random()
    same_doc = [nm for nm in index.get(h, ()) if _subject(nm) == _subject(a)]
    if r < 0.4:
        b = a
    elif r < 0.75 and same_doc:
        b = rng.choice(same_doc)
    elif index.get(h):
        b = rng.choice(index[h])
    else:
        b = a
    # a class of the same name in another module: whatever is memoised by name or by annotation text is shared
    # between the two although it means another class in each
    twins = twin_classes().get(core.Z.op_by_name[a].ck, ())
    if twins and rng.random() < 0.5:
        twin_ops = [nm for ck in twins for nm in ops_of_class(ck)]
        same_kind = [nm for nm in twin_ops if core.Z.op_by_name[nm].kind == core.Z.op_by_name[a].kind]
        if twin_ops:
            b = rng.choice(same_kind or twin_ops)
            adopted = [loc for loc in first if "/xsdata/" not in loc and not loc.startswith(("formats/", "utils/", "models/"))]
            if adopted and rng.random() < 0.7:
                hot = rng.sample(adopted, min(len(adopted), rng.choice([1, 2, 3])))
    n = rng.choice([2, 2, 2, 3, 3, 4])
    threads = [[a], [b]]
    from sim.pool import catalog as _C

    if core.Z.op_by_name[a].ck in _C.L3_SENSITIVE and rng.random() < 0.7:
        # the first use of a class races the import of the module that registers a converter for one of its
        # field types; the same caller then goes on using the class
        again = [nm for nm in ops_of_class(core.Z.op_by_name[a].ck)]
        threads = [[a] + [rng.choice(again) for _ in range(rng.choice([1, 2]))], ["import:L3"]]
    pool = same_doc or index.get(h) or [a]
    for _ in range(n - 2):
        threads.append([rng.choice(pool) if rng.random() < 0.7 else rng.choice(names)])
    for prog in threads:
        if rng.random() < 0.3:
            prog.append(rng.choice(core.Z.sensitive) if core.Z.sensitive and rng.random() < 0.4 else rng.choice(names))
    rng.shuffle(threads)
    return {
        "seed": seed,
        "threads": threads,
        "warmup": [],
        "shared_tools": rng.random() < 0.7,
        "mode": "hotonly",
        "opcode": False,
        "hot": sorted(set(hot)),
        "p_hot": rng.choice([0.7, 1.0, 1.0]),
        "p": 0.0,
        "loc_cap": 1,
        "max_switches": rng.choice([2, 4, 8]),
        "strategy": "directed",
    }


def _subject(name):
    parts = name.split(":")
    return parts[2] if parts[0] == "parse_xml" else parts[1]


_write_ops = []


def write_ops():
    """Operations that assign attributes of long-lived objects on a warm call (none on the pinned tree)."""
    if not _write_ops and core.Z.cov_writes:
        _write_ops.extend(sorted(n for n, w in core.Z.cov_writes.items() if w and not core.Z.op_by_name[n].needs))
        if not _write_ops:
            _write_ops.append(None)
    return [n for n in _write_ops if n]


_tool_ops = {}


def ops_of_tool(tool):
    if not _tool_ops:
        for op in core.Z.ops:
            if op.tool and not op.needs:
                _tool_ops.setdefault(op.tool, []).append(op.name)
    return _tool_ops.get(tool, [])


def following_lines(loc, count=3):
    """`loc` and the next lines of the same function(s): the window in which a per-call write is visible."""
    out = [loc]
    for code in codes_with([loc]):
        lines = sorted({ln for _, _, ln in code.co_lines() if ln is not None})
        here = int(loc.rsplit(":", 1)[1])
        nxt = [ln for ln in lines if ln > here][:count]
        out += [S.short_loc(code, ln) for ln in nxt]
    return sorted(set(out))


def gen_write_directed(seed, rng):
    """A call that writes per-call state onto a shared object is pre-empted right after the write while
    another call uses the same shared parser/serializer (strikes on warm instances as well)."""
    names = write_ops()
    if not names:
        return None
    a = rng.choice(names)
    w = rng.choice(sorted(core.Z.cov_writes[a]))
    hot = following_lines(w, rng.choice([1, 2, 4]))
    tool = core.Z.op_by_name[a].tool
    peers = ops_of_tool(tool) or [o.name for o in core.Z.ops if not o.needs]
    anyop = [o.name for o in core.Z.ops if not o.needs]
    n = rng.choice([2, 2, 3, 4])
    threads = [[a]]
    sens_peers = [nm for nm in peers if nm in set(core.Z.sensitive)]
    for _ in range(n - 1):
        r = rng.random()
        if sens_peers and r < 0.4:
            threads.append([rng.choice(sens_peers)])
        else:
            threads.append([rng.choice(peers) if r < 0.85 else rng.choice(anyop)])
    warm = []
    if rng.random() < 0.5:
        warm = [nm for prog in threads for nm in prog]
    rng.shuffle(threads)
    return {
        "seed": seed,
        "threads": threads,
        "warmup": warm,
        "shared_tools": True,
        "mode": "hotonly",
        "opcode": False,
        "hot": hot,
        "p_hot": rng.choice([0.5, 1.0]),
        "p": 0.0,
        "loc_cap": rng.choice([1, 2, 3]),
        "max_switches": rng.choice([2, 4, 8]),
        "strategy": "write-directed",
    }


_gwrite = {}


def gwrite_tables():
    """(calls that replace module-level state, line -> calls executing that line) - empty on the pinned tree."""
    if not _gwrite and core.Z.cov:
        writers = sorted(n for n, locs in core.Z.cov_gwrites.items() if locs and not core.Z.op_by_name[n].needs)
        lines = set()
        for n in writers:
            lines |= core.Z.cov_gwrites[n]
        users = {}
        for op in core.Z.ops:
            if not op.needs:
                for loc in core.Z.cov.get(op.name, frozenset()) & lines:
                    users.setdefault(loc, []).append(op.name)
        _gwrite["writers"] = writers
        _gwrite["users"] = users
    return _gwrite.get("writers", []), _gwrite.get("users", {})


def gen_gwrite_directed(seed, rng):
    """A call that replaces a value in module-level state (a table or object bound to a module global) is
    pre-empted inside the functions that name that global, while other calls that run the same functions -
    about other documents - go through them completely."""
    writers, users = gwrite_tables()
    if not writers:
        return None
    a = rng.choice(writers)
    hot = sorted(loc for loc in core.Z.cov_gwrites[a] if not loc.startswith("<"))  # not the generated __init__ bodies
    sharing = sorted({n for loc in hot for n in users.get(loc, ()) if _subject(n) != _subject(a)})
    # calls that replace the very same slot with (probably) another value are the natural opponents
    rivals = [w for w in writers if w != a and _subject(w) != _subject(a) and core.Z.cov_gslots.get(w, frozenset()) & core.Z.cov_gslots.get(a, frozenset())]
    if rivals and rng.random() < 0.7:
        sharing = rivals
    if not sharing:
        sharing = [o.name for o in core.Z.ops if not o.needs]
    n = rng.choice([2, 2, 3])
    threads = [[a]] + [[rng.choice(sharing)] for _ in range(n - 1)]
    warm = [nm for prog in threads for nm in prog] if rng.random() < 0.7 else []
    rng.shuffle(threads)
    return {
        "seed": seed,
        "threads": threads,
        "warmup": warm,
        "shared_tools": rng.random() < 0.5,
        "mode": "hotonly",
        "opcode": False,
        "hot": hot,
        "p_hot": rng.choice([0.3, 0.6, 1.0]),
        "p": 0.0,
        "loc_cap": rng.choice([1, 2, 4]),
        "max_switches": rng.choice([2, 4, 8]),
        "strategy": "global-write-directed",
    }


_iter_lines = set()
_ck_ops = {}


def iter_lines():
    if not _iter_lines:
        _iter_lines.update(S.iteration_lines(codes_for("all")))
    return _iter_lines


def ops_of_class(ck):
    if not _ck_ops:
        for op in core.Z.ops:
            if op.ck and not op.needs:
                _ck_ops.setdefault(op.ck, []).append(op.name)
    return _ck_ops.get(ck, [])


_line_ops = {}


def ops_by_iter_line():
    """iteration line -> calls (about some class) that execute it."""
    if not _line_ops and core.Z.cov:
        il = iter_lines()
        for op in core.Z.ops:
            if op.ck and not op.needs:
                for loc in core.Z.cov.get(op.name, frozenset()) & il:
                    _line_ops.setdefault(loc, []).append(op.name)
    return _line_ops


def gen_iteration_directed(seed, rng):
    """A call is pre-empted inside a loop over an attribute-held container while another call about the
    same class (another kind of call, so another code path) runs to completion. The loop line is drawn
    first, so rarely executed loops get the same share of runs as common ones."""
    table = ops_by_iter_line()
    if not table:
        return None
    h = rng.choice(sorted(table))
    a = core.Z.op_by_name[rng.choice(table[h])]
    hot = [h]
    peers = ops_of_class(a.ck)
    other_kind = [nm for nm in peers if core.Z.op_by_name[nm].kind != a.kind]
    n = rng.choice([2, 2, 3])
    threads = [[a.name]]
    for _ in range(n - 1):
        pool = other_kind if other_kind and rng.random() < 0.7 else peers
        threads.append([rng.choice(pool)])
    warm = [nm for prog in threads for nm in prog] if rng.random() < 0.3 else []
    rng.shuffle(threads)
    return {
        "seed": seed,
        "threads": threads,
        "warmup": warm,
        "shared_tools": rng.random() < 0.7,
        "mode": "hotonly",
        "opcode": False,
        "hot": hot,
        "p_hot": rng.choice([0.5, 1.0, 1.0]),
        "hot_skip": rng.choice([0, 1, 1, 2, 3, 5]),
        "p": 0.0,
        "loc_cap": rng.choice([1, 2]),
        "max_switches": rng.choice([2, 4, 8]),
        "strategy": "iteration-directed",
    }


def _gen_spec(seed):
    """Everything about a run except the schedule, which the seeded scheduler decides on the fly."""
    rng = random.Random(seed)
    if core.Z.cov and rng.random() < 0.2:
        spec = gen_iteration_directed(seed, rng)
        if spec:
            return spec
    if core.Z.cov and rng.random() < 0.08:
        spec = gen_container_directed(seed, rng)
        if spec:
            return spec
    if core.Z.cov_gwrites and gwrite_tables()[0] and rng.random() < 0.25:
        spec = gen_gwrite_directed(seed, rng)
        if spec:
            return spec
    if core.Z.cov_writes and write_ops() and rng.random() < 0.3:
        spec = gen_write_directed(seed, rng)
        if spec:
            return spec
    if core.Z.cov_first and rng.random() < 0.45:
        spec = gen_directed(seed, rng)
        if spec:
            return spec
    by_group = _index_ops()
    n = rng.choice(THREAD_COUNTS)
    focus = rng.sample(GROUPS[:-2], rng.choice([1, 1, 2, 2, 3]))
    cands = [op for g in focus for op in by_group.get(g, ())]
    if rng.random() < 0.6:
        cands += by_group.get("noclass", [])
    if rng.random() < 0.5:
        cands += by_group.get("ctx", [])
    # narrow further half of the time so threads collide on the very same classes
    if rng.random() < 0.5:
        docs = sorted({op.name.split(":")[2] if op.kind == "parse_xml" else op.name.split(":")[1] for op in cands})
        keep = set(rng.sample(docs, min(len(docs), rng.choice([2, 3, 5, 8]))))
        cands = [op for op in cands if (op.name.split(":")[2] if op.kind == "parse_xml" else op.name.split(":")[1]) in keep] or cands
    early = [op for op in cands if not op.needs]
    use_imports = rng.random() < 0.45
    late_keys = rng.sample(["L1", "L2", "L3"], rng.choice([1, 2, 2, 3])) if use_imports else []
    threads = []
    for t in range(n):
        k = rng.choice([1, 1, 2, 2, 3, 4])
        prog = [rng.choice(early).name for _ in range(k)] if early else []
        threads.append(prog)
    for key in late_keys:
        for _ in range(rng.choice([1, 1, 2])):
            t = rng.randrange(n)
            pos = rng.randrange(len(threads[t]) + 1)
            threads[t].insert(pos, "import:" + key)
            lateops = [op for op in core.Z.ops if op.needs == key and (op.group in focus or op.group in ("noclass", "ctx"))]
            if lateops and rng.random() < 0.7:
                threads[t].insert(pos + 1, rng.choice(lateops).name)
    warm = []
    if rng.random() < 0.35 and early:
        warm = [rng.choice(early).name for _ in range(rng.choice([1, 2, 3]))]
    if core.Z.sensitive and rng.random() < 0.35:
        # a victim whose result is easy to disturb (lenient conversions, logged leftovers)
        t = rng.randrange(n)
        threads[t].insert(rng.randrange(len(threads[t]) + 1), rng.choice(core.Z.sensitive))
    mode, opcode = rng.choice(MODES)
    # conflict-directed pre-emption: lines (of the traced code set) that the calls of at least two
    # different threads execute, according to the per-call line coverage of the reference pass
    hot = []
    if core.Z.cov and not opcode and rng.random() < 0.6:
        table = lines_for(mode)
        seen_by = {}
        for t, prog in enumerate(threads):
            locs = set()
            for nm in prog:
                locs |= core.Z.cov.get(nm, frozenset())
            for loc in locs & table:
                seen_by[loc] = seen_by.get(loc, 0) + 1
        contended = sorted(loc for loc, c in seen_by.items() if c >= 2)
        if contended:
            hot = rng.sample(contended, min(len(contended), rng.choice([1, 1, 2, 3])))
    if hot:
        return {
            "seed": seed,
            "threads": threads,
            "warmup": warm,
            "shared_tools": rng.random() < 0.7,
            "mode": mode,
            "opcode": False,
            "hot": hot,
            "p_hot": rng.choice([0.6, 0.9, 1.0]),
            "p": rng.choice([0.0, 0.0, 0.01, 0.05]),
            "loc_cap": rng.choice([1, 1, 2]),
            "max_switches": rng.choice([4, 8, 16]),
        }
    return {
        "seed": seed,
        "threads": threads,
        "warmup": warm,
        "shared_tools": rng.random() < 0.7,
        "mode": mode,
        "opcode": opcode,
        "p": rng.choice([0.03, 0.1, 0.2, 0.35, 0.5, 0.7]),
        "loc_cap": rng.choice([1, 1, 2, 3]),
        "max_switches": rng.choice([4, 8, 16, 64]),
    }


def gen_spec(seed):
    spec = _gen_spec(seed)
    # in one run out of eight some caller also drops the context's caches (XmlContext.reset) in the middle of it all
    r2 = random.Random(seed ^ 0x7E5E7)
    if r2.random() < 0.125 and spec.get("threads"):
        t = r2.randrange(len(spec["threads"]))
        spec["threads"][t].insert(r2.randrange(len(spec["threads"][t]) + 1), "ctx_reset:context")
        if r2.random() < 0.5:
            spec["threads"].append(["ctx_reset:context"])
    # the callers of some runs keep one instance of every object they serialize and of every decoded document
    # they pass to DictDecoder (an own stream of choices, so that the rest of the run is what it was before)
    if random.Random(seed ^ 0x5A17).random() < 0.15:
        spec["share_inputs"] = True
    return spec


# ---------------------------------------------------------------- one run (executes in a pristine grandchild)
def admissible(op, m0, m1):
    """Late-module sets the call may legitimately have observed."""
    lo, hi = frozenset(m0), frozenset(m1)
    out = []
    for m in core.MSETS:
        fm = frozenset(m)
        if lo <= fm <= hi and (not op.needs or op.needs in fm):
            out.append(fm)
    return out


def run_spec(spec, R, timeout=20.0):
    from xsdata.formats.dataclass.context import XmlContext

    core.child_init()
    O.SHARED_INPUTS = {} if spec.get("share_inputs") else None
    seed = spec.get("seed", 0)
    explicit = spec.get("schedule")
    rng = None if explicit is not None else random.Random(f"{seed}/sched")
    programs = spec["threads"]
    n = len(programs)
    byname = core.Z.op_by_name
    sch = S.Scheduler(
        n,
        rng=rng,
        schedule=explicit,
        p_preempt=spec.get("p", 0.3),
        loc_cap=spec.get("loc_cap", 2),
        max_switches=spec.get("max_switches", 64),
        step_cap=spec.get("step_cap", 3_000_000),
        hot=spec.get("hot", ()),
        p_hot=spec.get("p_hot", 0.9),
        hot_skip=spec.get("hot_skip", 0),
    )

    S.install_sim_locks(sch)
    from sim.pool import catalog as _C

    core.LATE_LOCKS = {k: S.SimLock(sch, reentrant=True) for k in _C.LATE}
    env = O.Env()
    viol = []
    results = []  # (thread, index, opname, record, m0, m1)
    stats = {"ops": 0, "imports": 0}

    def check_record(who, idx, name, rec, m0, m1):
        op = byname[name]
        if op.ck in _C.L3_SENSITIVE and ("L3" in m1) != ("L3" in m0):
            # the call overlapped the import that registers a converter for a field type of this class: converters
            # are looked up per value, so part of the document may legitimately be converted the old way and part
            # the new way - there is no single "alone" result to compare with
            stats["overlapped_registration"] = stats.get("overlapped_registration", 0) + 1
            return
        refs = [R[(name, fm)] for fm in admissible(op, m0, m1) if (name, fm) in R]
        if not refs:
            raise core.HarnessError(f"no reference for {name} under {m0}..{m1}")
        if not any(O.same(rec, r) for r in refs):
            ref = refs[0]
            viol.append(
                {
                    "clause": "result_differs_from_alone",
                    "thread": who,
                    "index": idx,
                    "op": name,
                    "got": {k: rec[k] for k in ("k", "v", "w", "l")},
                    "alone": {k: ref[k] for k in ("k", "v", "w", "l")},
                    "sig": (["globalns-override"] if ":globalns" in name and both_globalns else []) + ["result", name.split(":")[0], rec["k"], rec["v"].split(":")[0] if rec["k"] == "exc" else "value"],
                }
            )

    # the recorded first-use-wins finding needs both mappings of the annotation in one run
    _all = [nm for prog in programs for nm in prog] + list(spec.get("warmup", []))
    both_globalns = any(":globalns2" in nm for nm in _all) and any(":globalns" in nm and ":globalns2" not in nm for nm in _all)

    def do_item(who, idx, name, the_env):
        if name.startswith("import:"):
            core.register_late(name[7:])
            stats["imports"] += 1
            return
        m0 = current_M()
        rec = O.execute(byname[name], the_env)
        m1 = current_M(upper=True)
        stats["ops"] += 1
        results.append((who, idx, name, rec, m0, m1))

    # warm-up: sequential calls by the main thread on the same shared objects
    for i, name in enumerate(spec.get("warmup", [])):
        do_item("warm", i, name, env)

    all_ops = [byname[nm] for prog in programs for nm in prog if not nm.startswith("import:")]
    if spec.get("shared_tools", True):
        env.prepare(all_ops)
        envs = [env] * n
    else:
        envs = []
        for prog in programs:
            e = O.Env.__new__(O.Env)
            e.context = env.context
            e._context2 = env.context2  # the second shared context is shared the same way
            e.tools = {}
            e.prepare([byname[nm] for nm in prog if not nm.startswith("import:")])
            envs.append(e)

    # index-integrity probe at the point of observation
    ref_ctx = {}
    probe_stats = {"find_types_calls": 0, "find_types_checked": 0}
    orig_find_types = getattr(XmlContext, "find_types", None)
    shared_ctx = env.context

    def probed_find_types(self, qname):
        if self is not shared_ctx or threading.get_ident() not in sch.idents:
            return orig_find_types(self, qname)
        m0 = current_M()
        res = orig_find_types(self, qname)
        snap = list(res)
        m1 = current_M()
        sch.suppress += 1
        try:
            probe_stats["find_types_calls"] += 1
            if m0 == m1 and not core.LATE_BUSY:
                ctx = ref_ctx.get(m1)
                if ctx is None:
                    ctx = ref_ctx[m1] = XmlContext()
                exp = list(orig_find_types(ctx, qname))
                if current_M() == m1:
                    probe_stats["find_types_checked"] += 1
                    if snap != exp:
                        viol.append(
                            {
                                "clause": "index_observed_inconsistent",
                                "thread": sch.idents.get(threading.get_ident()),
                                "qname": qname,
                                "got": [f"{c.__module__}.{c.__qualname__}" for c in snap],
                                "fresh": [f"{c.__module__}.{c.__qualname__}" for c in exp],
                                "sig": ["index", "dup" if len(snap) > len(exp) else ("missing" if len(snap) < len(exp) else "other")],
                            }
                        )
        finally:
            sch.suppress -= 1
        return res

    if orig_find_types is not None:
        XmlContext.find_types = probed_find_types

    def body(t):
        sch.sems[t].acquire()
        try:
            for idx, name in enumerate(programs[t]):
                do_item(t, idx, name, envs[t])
        except S.Aborted:
            return
        finally:
            sch.finish(t)

    threads = [threading.Thread(target=body, args=(t,), name=f"sim-{t}", daemon=True) for t in range(n)]
    for t, th in enumerate(threads):
        th.start()
        sch.idents[th.ident] = t
    if spec.get("mode") == "hotonly":
        traced = codes_with(spec.get("hot", ()))
    elif str(spec.get("mode", "")).startswith("named:"):
        traced = codes_naming(spec["mode"][6:])
    else:
        traced = codes_for(spec.get("mode", "shared"))
    monitor = S.Monitor(sch, traced, opcode=spec.get("opcode", False))
    monitor.install()
    t0 = time.monotonic()
    sch.current = sch.start
    sch.sems[sch.start].release()
    finished = sch.main_sem.acquire(timeout=timeout)
    wall = time.monotonic() - t0
    if orig_find_types is not None:
        XmlContext.find_types = orig_find_types
    hang = None
    if not finished:
        hang = "wall"
    elif sch.aborted:
        hang = sch.aborted
    if hang:
        viol.append({"clause": "no_progress", "kind": hang, "steps": sch.steps, "sig": ["no_progress", hang]})
    else:
        monitor.uninstall()
        for who, idx, name, rec, m0, m1 in results:
            check_record(who, idx, name, rec, m0, m1)
    trace = [list(x) for x in sch.trace]
    # A module body was pre-empted between two of its statements in this run. What calls about the late
    # classes or class-less lookups observe then is marked: the type index built meanwhile is stamped as
    # current and stays incomplete (a recorded finding, see known_findings.json); everything else keeps its signature.
    if any(str(loc).startswith("<coop>import:") for _, _, loc, _ in sch.trace):
        for v in viol:
            op = byname.get(v.get("op", ""))
            late = (op is not None and (op.needs or op.group in ("noclass", "ctx"))) or "late" in str(v.get("qname", ""))
            if late and v["sig"][0] in ("result", "index"):
                v["sig"] = ["import-window"] + list(v["sig"])
    out = {
        "seed": seed,
        "viol": viol,
        "schedule": sch.recorded(),
        "steps": sch.steps,
        "switches": sch.nswitch,
        "nthreads": n,
        "hot_hits": sch.hot_hits,
        "lock_waits": sch.lock_waits,
        "mode": spec.get("mode", "shared") + ("/opcode" if spec.get("opcode") else "") + ("/" + spec["strategy"] if spec.get("strategy") else ("/hot" if spec.get("hot") else "")),
        "nops": stats["ops"],
        "imports": stats["imports"],
        "wall": wall,
        "probe": probe_stats,
        "inter_digest": core.digest([(t, loc, to) for _, t, loc, to in sch.trace]),
        "pairs": sorted(sch.pairs),
        "digest": core.digest({"trace": trace, "results": [(w, i, nm, r["k"], r["v"], r["w"], r["l"]) for w, i, nm, r, _, _ in results]}),
        "probes": classify_probes(sch, results),
    }
    return out


def classify_probes(sch, results):
    """'This rare condition was hit' counters, derived from the switch trace."""
    p = {"preempt_in_build_xsi_cache": 0, "preempt_in_build": 0, "preempt_in_find_types": 0, "preempt_in_match_namespace": 0, "preempt_in_parser_nsmap": 0, "preempt_other": 0}
    from sim.sched import short_loc  # noqa: F401

    for _, t, loc, to in sch.trace:
        if loc == "<finish>":
            continue
        f = LOC_FUNCS.get(loc)
        if f is None:
            p["preempt_other"] += 1
        else:
            p[f] = p.get(f, 0) + 1
    return p


LOC_FUNCS = {}


def build_loc_funcs():
    """Map 'file:line' to a probe name for the functions named in the property's anchors."""
    want = {
        "build_xsi_cache": "preempt_in_build_xsi_cache",
        "build": "preempt_in_build",
        "find_types": "preempt_in_find_types",
        "match_namespace": "preempt_in_match_namespace",
        "register_namespace": "preempt_in_parser_nsmap",
        "parse": "preempt_in_parser_nsmap",
    }
    for code in codes_for("all"):
        probe = want.get(code.co_name)
        if probe is None:
            continue
        fn = code.co_filename
        if code.co_name in ("build", "build_xsi_cache", "find_types") and not fn.endswith("dataclass/context.py"):
            continue
        if code.co_name in ("parse", "register_namespace") and "/parsers/" not in fn:
            continue
        for _, _, line in code.co_lines():
            if line is not None:
                LOC_FUNCS[S.short_loc(code, line)] = probe
