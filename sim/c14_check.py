"""Check driver for C14."""
import copy
import json
import random
import time
from collections import Counter

from sim import c14, core
from sim.driver import Report, seeds_for
from sim.minimize import Budget, ddmin

PROP = "C14"
TIERS = {
    "quick": {"runs": 12000, "budget": 30.0, "pair_firsts": 50},
    "thorough": {"runs": 600000, "budget": 900.0, "pair_firsts": None},
}
_R = None


def _task(spec):
    return c14.run_spec(spec, _R)


def _seed_task(seed):
    return c14.run_spec(c14.gen_spec(seed), _R)


def _pair_task(item):
    return c14.run_pairs(item, _R)


def run_solo(spec, timeout=60.0):
    status, out = core.run_in_child(_task, (spec,), timeout=timeout)
    if status != "ok":
        return None, f"{status}: {str(out)[-1500:]}"
    return out, None


def has_sig(out, sig):
    return out is not None and any(tuple(v["sig"]) == tuple(sig) for v in out["viol"])


def minimize(spec, sig, max_trials=200):
    budget = Budget(max_trials)
    out, _ = run_solo(spec)
    if not has_sig(out, sig):
        return spec, 0
    vstep = next(v for v in out["viol"] if tuple(v["sig"]) == tuple(sig))["step"]
    best = dict(spec, steps=spec["steps"][: vstep + 1])
    last = best["steps"][-1]

    def test(prefix):
        cand = dict(best, steps=list(prefix) + [last])
        o, _ = run_solo(cand)
        return has_sig(o, sig)

    prefix = ddmin(best["steps"][:-1], test, budget)
    best["steps"] = list(prefix) + [last]
    # drop faults that are not needed
    for i, st in enumerate(best["steps"]):
        if "fault" in st and budget.take():
            cand = copy.deepcopy(best)
            del cand["steps"][i]["fault"]
            o, _ = run_solo(cand)
            if has_sig(o, sig):
                best = cand
    if best.get("nctx", 1) > 1 and budget.take():
        cand = copy.deepcopy(best)
        cand["nctx"] = 1
        o, _ = run_solo(cand)
        if has_sig(o, sig):
            best = cand
    return best, max_trials - budget.left


def summarize(v):
    other = v.get("fresh") or v.get("pristine")
    which = "fresh instances" if "fresh" in v else "a pristine process"
    return f"step {v['step']} {v['op']}{' under fault ' + json.dumps(v['fault']) if v.get('fault') else ''}: shared instances gave {v['got']['k']} {v['got']['v'][:150]!r} but {which} gave {other['k']} {other['v'][:150]!r}"


def confirm_and_write(spec, sig, tag):
    a, _ = run_solo(spec)
    b, _ = run_solo(spec)
    if not has_sig(a, sig) or not has_sig(b, sig):
        return None, None, "not reproducible from its explicit history"
    if a["digest"] != b["digest"]:
        return None, None, "replay digests differ"
    v = next(v for v in a["viol"] if tuple(v["sig"]) == tuple(sig))
    payload = {"property": PROP, "spec": spec, "violation": v, "digest": a["digest"], "sig": list(sig)}
    path = core.write_replay(PROP, f"{spec.get('seed', 0)}-{core.digest([spec, list(sig)])}-{tag}", payload)
    return path, v, None


def pair_items(firsts, rng):
    ops = core.Z.ops
    names_all = [o.name for o in ops]
    names_early = [o.name for o in ops if not o.needs]
    first_ops = ops if firsts is None else rng.sample(ops, min(firsts, len(ops)))
    items = []
    # process-global state accumulates over the second operations inside one sweep child, so a
    # polluting call followed (later in the list) by a sensitive one is noticed; alternate the list
    # order so that both relative orders of any two calls occur
    for j, a in enumerate(first_ops):
        rev = (j // 2) % 2 == 1
        order = (lambda lst: list(reversed(lst))) if rev else (lambda lst: lst)
        if a.needs or (firsts is not None and j % 2):
            items.append((a.name, order(names_all), ("L1", "L2", "L3")))
        else:
            items.append((a.name, order(names_early), ()))
        if firsts is None and not a.needs:
            items.append((a.name, order(names_all), ("L1", "L2", "L3")))
    return items


def check(args):
    global _R
    t0 = time.time()
    tier = TIERS[args.tier]
    nruns = args.runs or tier["runs"]
    budget = args.budget or tier["budget"]
    core.reexec_pinned()
    core.bootstrap()
    _R = core.compute_reference()
    t_setup = time.time() - t0
    report = Report(PROP)
    seeds = seeds_for(args.seed, nruns)
    agg = {"runs": 0, "steps": 0, "faults": Counter(), "fired": Counter(), "pairs": set(), "probes": Counter(), "hist": set(), "nontrivial": set(), "sigs": Counter(), "nsmap": 0}
    first_by_sig = {}
    samples = []
    t1 = time.time()

    retry = []

    def on_result(idx, status, out, final=False):
        if status != "ok":
            if status == "timeout" and not final and len(retry) < 16:
                # the wall clock is not simulated: a run killed by it is repeated alone before anything is said
                retry.append(idx)
                return
            report.harness_errors.append(f"seed {seeds[idx]}: {status}: {str(out)[-800:]}")
            return
        agg["runs"] += 1
        agg["steps"] += out["steps"]
        agg["faults"].update(out["faults"])
        agg["fired"].update(out["fired"])
        agg["pairs"].update(tuple(p) for p in out["pairs"])
        agg["probes"].update(out["probes"])
        agg["hist"].add(out["hist_digest"])
        agg["nsmap"] = max(agg["nsmap"], out["parser_ns_map_max"])
        if out["steps"] >= 2 and out["pairs"]:
            agg["nontrivial"].add(out["hist_digest"])
        for v in out["viol"]:
            sig = tuple(v["sig"])
            agg["sigs"][sig] += 1
            first_by_sig.setdefault(sig, seeds[idx])
        if len(samples) < 3 and 3 <= out["steps"] <= 6 and out["fired"]:
            samples.append(seeds[idx])

    core.run_batch(_seed_task, seeds, timeout=120.0, deadline=time.monotonic() + budget, on_result=on_result)
    for idx in list(retry):
        st, out = core.run_in_child(_seed_task, (seeds[idx],), timeout=600.0)
        on_result(idx, st, out, final=True)
    t_hist = time.time() - t1
    # ---- ordered pairs a;b on fresh shared instances (exhaustive in the thorough tier)
    t2 = time.time()
    rng = random.Random(f"{args.seed}/pairs")
    items = pair_items(tier["pair_firsts"], rng)
    pair_stats = {"pairs": 0, "firsts": 0}
    pair_viol = []

    def on_pair(idx, status, out):
        if status != "ok":
            report.harness_errors.append(f"pair sweep {items[idx][0]}: {status}: {str(out)[-800:]}")
            return
        pair_stats["pairs"] += out["pairs"]
        pair_stats["firsts"] += 1
        pair_viol.extend(out["viol"])

    pair_deadline = time.monotonic() + (budget if args.tier == "thorough" else 35.0)
    res = core.run_batch(_pair_task, items, timeout=600.0, deadline=pair_deadline, on_result=on_pair)
    pairs_complete = len(res) == len(items)
    t_pairs = time.time() - t2
    seen_b = set()
    for pv in pair_viol:
        if pv["b"] in seen_b or len(seen_b) >= 6:
            continue
        seen_b.add(pv["b"])
        steps = [{"import": k} for k in pv["mods"]] + [{"op": pv["a"], "ctx": 0}, {"op": pv["b"], "ctx": 0}]
        spec = {"seed": -1, "nctx": 1, "steps": steps}
        out, err = run_solo(spec)
        if out and out["viol"]:
            sig = tuple(out["viol"][0]["sig"])
            agg["sigs"][sig] += 1
            if sig not in first_by_sig:
                first_by_sig[sig] = spec
        else:
            # not reproducible as a pair: process-global state left by an earlier call of the sweep
            long_steps = [{"import": k} for k in pv["mods"]] + [{"op": nm, "ctx": 0} for nm in pv["before"][-400:]] + [{"op": pv["a"], "ctx": 0}, {"op": pv["b"], "ctx": 0}]
            spec = {"seed": -2, "nctx": 1, "steps": long_steps}
            out, err = run_solo(spec, timeout=300.0)
            hits = list(out["viol"]) if out else []
            if hits:
                sig = tuple(hits[0]["sig"])
                agg["sigs"][sig] += 1
                first_by_sig.setdefault(sig, spec)
            else:
                report.harness_errors.append(f"pair {pv['a']} ; {pv['b']} differed inside the sweep but neither alone nor after the preceding calls: {json.dumps(pv)[:500]}")
    # ---- triage
    listed = {sig for sig in first_by_sig if report.match_known(sig) is not None}
    for sig in sorted(listed):
        report.add(sig, "-", "recorded finding")  # nothing to shrink or confirm again
    unlisted = sorted(((sig, sp) for sig, sp in first_by_sig.items() if sig not in listed), key=lambda kv: kv[0])
    for sig, seed_or_spec in unlisted[:8]:
        spec = seed_or_spec if isinstance(seed_or_spec, dict) else c14.gen_spec(seed_or_spec)
        small, trials = minimize(spec, sig)
        path, v, err = confirm_and_write(small, sig, "min")
        if err:
            path, v, err2 = confirm_and_write(spec, sig, "full")
            if err2:
                report.harness_errors.append(f"violation {sig} {err2}")
                continue
        report.add(sig, path, summarize(v) + f" [seed {spec.get('seed')}, history of {len(small['steps'])} steps after {trials} shrink trials]")
    for sig, seed_or_spec in unlisted[8:]:
        spec = seed_or_spec if isinstance(seed_or_spec, dict) else c14.gen_spec(seed_or_spec)
        path = core.write_replay(PROP, f"{spec.get('seed', 0)}-{core.digest(list(sig))}-untriaged", {"property": PROP, "spec": spec, "sig": list(sig), "note": "more than 8 distinct signatures in this run; not minimised"})
        report.add(sig, path, f"{sig} [seed {spec.get('seed')}, not minimised]")
    wall = time.time() - t0
    if not args.no_evidence:
        ev = {
            "property_id": PROP,
            "tier": args.tier,
            "seed": args.seed,
            "level": "exploration",
            "wall_s": round(wall, 2),
            "violations": len(report.unlisted),
            "coverage": {
                "evaluations": agg["runs"] + pair_stats["pairs"],
                "distinct_nontrivial": len(agg["nontrivial"]) + pair_stats["pairs"],
                "rule": "evaluations = seeded histories (2-40 steps on 1-2 shared contexts with their parsers/serializers, import events and injected source/sink/callback faults) "
                "plus ordered pairs `a; b` run on fresh shared instances. Every step is compared with the same call on fresh instances under the same fault (O1) and with the call "
                "run alone in a pristine process (O2). distinct_nontrivial = distinct histories (hash of the step list) with at least two calls on the same context, plus the ordered pairs "
                "(each pair is distinct by construction).",
                "samples": [c14.gen_spec(s) for s in samples] or [c14.gen_spec(seeds[0])],
                "histories": agg["runs"],
                "history_steps": agg["steps"],
                "histories_per_hour": int(agg["runs"] / max(t_hist, 1e-6) * 3600),
                "ordered_pairs": pair_stats["pairs"],
                "ordered_pairs_first_ops": pair_stats["firsts"],
                "ordered_pairs_pool_size": len(core.Z.ops),
                "ordered_pairs_exhaustive": bool(tier["pair_firsts"] is None and pairs_complete),
                "exhaustive": False,
                "simulated_time": {"unit": "calls executed on shared instances", "total": agg["steps"] + 2 * pair_stats["pairs"]},
                "faults_injected": dict(agg["faults"]),
                "faults_fired": dict(agg["fired"]),
                "kind_group_pair_coverage": len(agg["pairs"]),
                "probes": dict(agg["probes"]),
                "parser_ns_map_max_prefixes_observed": agg["nsmap"],
                "violation_signatures": {"/".join(map(str, k)): v for k, v in agg["sigs"].items()},
                "components": {"real": ["XmlContext", "XmlParser (lxml, native)", "UserXmlParser", "TreeParser", "XmlSerializer (lxml, native)", "TreeSerializer", "JsonParser", "JsonSerializer", "DictDecoder", "DictEncoder", "PycodeSerializer", "converter", "qname helpers"], "stub": [], "harness": ["SimReader/SimWriter fault seams", "faulting class_factory/load_factory/dump_factory callbacks", "pool under /verif/sim/pool"]},
                "setup_s": round(t_setup, 2),
                "histories_s": round(t_hist, 2),
                "pairs_s": round(t_pairs, 2),
                "known_findings_printed": [k["what"] for k in report.known],
            },
            "assumptions": [
                "return values, raised exceptions, warnings and log records are the observable result; parser.ns_map (a documented recorder) is counted, not compared",
                "pool operations do not legitimately mutate process-global state, so a pristine-process reference is a sound oracle",
                "under an injected fault both the shared and the fresh call receive the same fault",
            ],
        }
        core.write_evidence(PROP, ev)
    print(f"[C14] histories={agg['runs']} steps={agg['steps']} pairs={pair_stats['pairs']} (complete={pairs_complete}) hist={t_hist:.1f}s pairs={t_pairs:.1f}s setup={t_setup:.1f}s", flush=True)
    return report.finish()


def replay(args):
    global _R
    core.reexec_pinned()
    with open(args.replay) as f:
        payload = json.load(f)
    core.bootstrap()
    spec = payload["spec"]
    _R = core.compute_reference({s["op"] for s in spec["steps"] if "op" in s})
    out, err = run_solo(spec)
    if err:
        print(f"HARNESS-ERROR: {err}")
        return 2
    print(f"digest={out['digest']} recorded={payload.get('digest')}")
    sig = payload.get("sig")
    hit = [v for v in out["viol"] if sig is None or tuple(v["sig"]) == tuple(sig)]
    if hit:
        print(f"VIOLATION property={PROP} replay={args.replay}")
        print("  " + summarize(hit[0]))
        for s in spec["steps"]:
            print("  step: " + json.dumps(s))
        return 1
    print("replay did not reproduce the violation on this tree")
    return 0


def digests(seed, runs):
    global _R
    core.bootstrap()
    _R = core.compute_reference()
    seeds = seeds_for(seed, runs)
    res = core.run_batch(_seed_task, seeds, timeout=120.0)
    return {str(seeds[i]): (out["digest"] if st == "ok" else f"{st}") for i, st, out in res}
