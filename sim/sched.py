"""Baton-passing scheduler for real caller threads.

Exactly one simulated thread runs at any time; the others are parked on their own
semaphore, so the interpreter's GIL never decides anything. Threads reach the scheduler
through `sys.monitoring` LINE (or INSTRUCTION) events that are enabled only on code
objects which touch shared state; at such a yield point the scheduler (seeded PRNG or an
explicit replay list) decides whether to pre-empt and who runs next.

A schedule is explicit and generator-independent:
  start:    thread that gets the baton first
  switches: [[t, k, to], ...]  when thread t reaches its k-th yield point, run `to` instead
  finish:   {t: to}            who runs when thread t has finished its program
"""
import sys
import threading
import types

mon = sys.monitoring
TOOL = mon.DEBUGGER_ID

SHARED_ATTRS = frozenset({"cache", "xsi_cache", "sys_modules", "namespace_matches", "hooks_cache", "registry"})
NSMAP_FILES = ("parsers/bases.py", "parsers/mixins.py", "parsers/xml.py", "parsers/handlers/")
RUNTIME_PREFIXES = ("xsdata.formats", "xsdata.utils", "xsdata.models", "xsdata.exceptions", "xsdata.logger")


def _walk_code(code, seen):
    if code in seen:
        return
    seen.add(code)
    for c in code.co_consts:
        if isinstance(c, types.CodeType):
            _walk_code(c, seen)


def xsdata_code_objects():
    """All function code objects of the loaded xsdata runtime modules."""
    seen = set()
    for name, mod in list(sys.modules.items()):
        if mod is None or not name.startswith(RUNTIME_PREFIXES):
            continue
        for obj in list(vars(mod).values()):
            _collect(obj, name, seen, 0)
    # adopted: standard library code that runs on the library's behalf and keeps state on objects that callers of
    # different modules share (typing memoises ForwardRef objects by annotation text)
    import typing

    for fn in (getattr(typing.ForwardRef, "_evaluate", None),):
        if isinstance(fn, types.FunctionType):
            _walk_code(fn.__code__, seen)
    return seen


def _collect(obj, modname, seen, depth):
    if depth > 3:
        return
    if isinstance(obj, (staticmethod, classmethod)):
        obj = obj.__func__
    if isinstance(obj, property):
        for f in (obj.fget, obj.fset, obj.fdel):
            if f is not None:
                _collect(f, modname, seen, depth)
        return
    if hasattr(obj, "__wrapped__") and not isinstance(obj, type):
        try:
            _collect(obj.__wrapped__, modname, seen, depth)
        except Exception:
            pass
    if isinstance(obj, types.FunctionType):
        if obj.__module__ == modname:
            _walk_code(obj.__code__, seen)
        return
    if isinstance(obj, type) and getattr(obj, "__module__", None) == modname:
        for v in list(vars(obj).values()):
            _collect(v, modname, seen, depth + 1)


def _mutable_globals():
    """Names of module-level mutable containers in the runtime modules."""
    names = set()
    for name, mod in list(sys.modules.items()):
        if mod is None or not name.startswith(RUNTIME_PREFIXES):
            continue
        for k, v in vars(mod).items():
            if isinstance(v, (dict, list, set)) and not k.startswith("__"):
                names.add(k)
    return names


def shared_code_objects(all_codes):
    """Code objects that syntactically touch shared state (follows refactors automatically)."""
    globs = _mutable_globals()
    out = set()
    for code in all_codes:
        names = set(code.co_names)
        fn = code.co_filename.replace("\\", "/")
        if names & SHARED_ATTRS:
            out.add(code)
        elif "ns_map" in names and any(p in fn for p in NSMAP_FILES):
            out.add(code)
        elif names & globs and "/xsdata/" in fn:
            out.add(code)
    return out


MUTATORS = frozenset({"append", "extend", "insert", "pop", "remove", "clear", "update", "setdefault", "sort", "add", "discard", "popitem", "reverse"})
_STORE_OPS = frozenset({"STORE_ATTR", "DELETE_ATTR", "STORE_SUBSCR", "DELETE_SUBSCR"})


def writer_code_objects(all_codes):
    """Code objects that write to heap objects after construction: attribute/subscript stores or a
    mutating method called on an attribute-held container. Any memo, cache or per-call scratch state
    that ends up on a shared instance is written by such a function."""
    import dis

    out = set()
    for code in all_codes:
        if code.co_name in ("__init__", "__post_init__", "__new__", "<module>"):
            continue
        prev = None
        for ins in dis.get_instructions(code):
            if ins.opname in _STORE_OPS:
                out.add(code)
                break
            if ins.opname == "LOAD_ATTR" and prev is not None and prev.opname == "LOAD_ATTR" and ins.argval in MUTATORS:
                out.add(code)
                break
            prev = ins
    return out


def iteration_lines(codes):
    """Lines inside `for` loops (and inlined comprehensions) whose iterable is reached through an attribute:
    candidates for 'somebody else changes the container while I iterate it in Python code'."""
    import dis

    out = set()
    for code in codes:
        ins = list(dis.get_instructions(code))
        for i, x in enumerate(ins):
            if x.opname != "GET_ITER" or not any(p.opname == "LOAD_ATTR" for p in ins[max(0, i - 6) : i]):
                continue
            for j in range(i + 1, min(i + 4, len(ins))):
                if ins[j].opname == "FOR_ITER":
                    start, end = ins[j].offset, ins[j].argval
                    for y in ins:
                        if start <= y.offset < end and y.positions and y.positions.lineno:
                            out.add(short_loc(code, y.positions.lineno))
                    break
    return out


def line_table(codes):
    """All 'file:line' locations of the given code objects."""
    out = set()
    for code in codes:
        for _, _, line in code.co_lines():
            if line is not None:
                out.add(short_loc(code, line))
    return out


def short_loc(code, line):
    fn = code.co_filename
    i = fn.rfind("/xsdata/")
    return f"{fn[i + 8:] if i >= 0 else fn}:{line}"


class Aborted(BaseException):
    pass


class SimLock:
    """Lock whose blocking is decided by the scheduler.

    The library under test has no locks, but a repair may add one. A real lock would wedge the
    simulation (the baton holder blocks on a lock owned by a parked thread); this one parks the
    waiter and hands the baton to a runnable thread instead, and reports a deadlock when nobody
    can run."""

    def __init__(self, sched, reentrant=False):
        self.sched = sched
        self.reentrant = reentrant
        self.owner = None
        self.count = 0

    def _me(self):
        return self.sched.idents.get(threading.get_ident(), "main")

    def acquire(self, blocking=True, timeout=-1):
        me = self._me()
        if self.reentrant and self.owner == me:
            self.count += 1
            return True
        while self.owner is not None:
            if not blocking or me == "main":
                return False
            self.sched.block_on(me, self)
        self.owner = me
        self.count = 1
        return True

    def release(self):
        if self.owner is None:
            raise RuntimeError("release unlocked lock")
        self.count -= 1
        if self.count <= 0:
            self.owner = None
            self.count = 0

    def locked(self):
        return self.owner is not None

    def __enter__(self):
        self.acquire()
        return self

    def __exit__(self, *a):
        self.release()
        return False


class _ThreadingProxy:
    """Stands in for the `threading` module inside xsdata modules: locks become SimLocks."""

    def __init__(self, sched):
        self._sched = sched

    def Lock(self):
        return SimLock(self._sched)

    def RLock(self):
        return SimLock(self._sched, reentrant=True)

    def __getattr__(self, item):
        return getattr(threading, item)


def install_sim_locks(sched):
    """Make every lock the library (or a repair of it) owns or creates scheduler-aware."""
    import _thread

    lock_types = (type(_thread.allocate_lock()), type(threading.RLock()))
    proxy = _ThreadingProxy(sched)
    replaced = 0
    for name, mod in list(sys.modules.items()):
        if mod is None or not name.startswith("xsdata"):
            continue
        for attr, val in list(vars(mod).items()):
            if val is threading:
                setattr(mod, attr, proxy)
                replaced += 1
            elif val is threading.Lock or val is _thread.allocate_lock:
                setattr(mod, attr, proxy.Lock)
                replaced += 1
            elif val is threading.RLock:
                setattr(mod, attr, proxy.RLock)
                replaced += 1
            elif isinstance(val, lock_types):
                setattr(mod, attr, SimLock(sched, reentrant=isinstance(val, lock_types[1])))
                replaced += 1
            elif isinstance(val, type) and getattr(val, "__module__", None) == name:
                for cattr, cval in list(vars(val).items()):
                    if isinstance(cval, lock_types):
                        setattr(val, cattr, SimLock(sched, reentrant=isinstance(cval, lock_types[1])))
                        replaced += 1
    return replaced


class Scheduler:
    def __init__(self, nthreads, rng=None, schedule=None, p_preempt=0.3, loc_cap=2, max_switches=64, step_cap=5_000_000, hot=(), p_hot=0.9, hot_skip=0):
        self.n = nthreads
        self.rng = rng
        self.explicit = schedule is not None
        self.sems = [threading.Semaphore(0) for _ in range(nthreads)]
        self.main_sem = threading.Semaphore(0)
        self.done = [False] * nthreads
        self.ycount = [0] * nthreads
        self.steps = 0
        self.current = None
        self.p = p_preempt
        self.hot = frozenset(hot)
        self.p_hot = p_hot
        self.hot_skip = hot_skip
        self.hot_visits = {}
        self.hot_hits = 0
        self.loc_cap = loc_cap
        self.max_switches = max_switches
        self.step_cap = step_cap
        self.loc_hits = {}
        self.blocked = {}
        self.lock_waits = 0
        self.nswitch = 0
        self.idents = {}
        self.suppress = 0
        self.aborted = None
        self.trace = []  # (step, thread, location, to) for every switch
        self.locs_seen = set()
        self.pairs = set()  # (preempted location, first location the other thread then hit)
        self._pending_pair = None
        if self.explicit:
            self.start = schedule.get("start", 0)
            self.sw = {(t, k): to for t, k, to in schedule.get("switches", [])}
            self.fin = {int(t): to for t, to in schedule.get("finish", {}).items()}
        else:
            self.start = rng.randrange(nthreads)
            self.sw = {}
            self.fin = {}
        self.rec_switches = []
        self.rec_finish = {}

    # ---- recorded explicit schedule
    def recorded(self):
        return {"start": self.start, "switches": [list(s) for s in self.rec_switches], "finish": {str(k): v for k, v in self.rec_finish.items()}}

    def runnable(self, exclude=None):
        return [i for i in range(self.n) if not self.done[i] and i != exclude and not self._is_blocked(i)]

    def _is_blocked(self, i):
        lock = self.blocked.get(i)
        if lock is None:
            return False
        if lock.owner is None:
            del self.blocked[i]
            return False
        return True

    def block_on(self, t, lock):
        """Thread t cannot take `lock`: park it and run somebody who can make progress."""
        k = self.ycount[t]
        self.ycount[t] = k + 1
        self.steps += 1
        self.blocked[t] = lock
        others = self.runnable(t)
        if not others:
            self.aborted = "deadlock"
            self.main_sem.release()
            self.sems[t].acquire()
            raise Aborted()
        if self.explicit:
            to = self.sw.get((t, k))
            if to is None or to not in others:
                to = others[0]
        else:
            to = others[self.rng.randrange(len(others))]
        self.lock_waits += 1
        self.rec_switches.append((t, k, to))
        self.trace.append((self.steps, t, "<lock>", to))
        self.current = to
        self.sems[to].release()
        self.sems[t].acquire()
        self.blocked.pop(t, None)

    def yield_point(self, t, loc):
        k = self.ycount[t]
        self.ycount[t] = k + 1
        self.steps += 1
        if self._pending_pair is not None:
            self.pairs.add((self._pending_pair, loc))
            self._pending_pair = None
        if self.steps > self.step_cap:
            self.aborted = "step_cap"
            self.main_sem.release()
            self.sems[t].acquire()  # park forever; the child exits
            raise Aborted()
        to = None
        if self.explicit:
            to = self.sw.get((t, k))
            if to is not None and (to == t or self.done[to]):
                others = self.runnable(t)
                to = others[0] if others else None
        else:
            if self.nswitch < self.max_switches:
                key = (t, loc)
                hits = self.loc_hits.get(key, 0)
                if hits < self.loc_cap:
                    is_hot = loc in self.hot
                    prob = self.p_hot if is_hot else self.p
                    if loc.startswith("<coop>"):
                        prob = max(prob, 0.5)  # rare, deliberate yield points are taken half of the time
                    if is_hot and self.hot_skip:
                        seen = self.hot_visits.get(key, 0)
                        self.hot_visits[key] = seen + 1
                        if seen < self.hot_skip:
                            prob = 0.0  # let the first visits pass: pre-empt in the middle of the loop
                    if self.rng.random() < prob:
                        self.hot_hits += is_hot
                        self.loc_hits[key] = hits + 1
                        others = self.runnable(t)
                        if others:
                            to = others[self.rng.randrange(len(others))]
        if to is None:
            return
        self.nswitch += 1
        self.rec_switches.append((t, k, to))
        self.trace.append((self.steps, t, loc, to))
        self.locs_seen.add(loc)
        self._pending_pair = loc
        self.current = to
        self.sems[to].release()
        self.sems[t].acquire()

    def finish(self, t):
        self.done[t] = True
        others = self.runnable()
        if not others:
            if not all(self.done):
                self.aborted = "deadlock"  # the remaining threads all wait for locks nobody will release
            self.main_sem.release()
            return
        if self.explicit:
            to = self.fin.get(t)
            if to is None or self.done[to]:
                to = others[0]
        else:
            to = others[self.rng.randrange(len(others))]
        self.rec_finish[t] = to
        self.trace.append((self.steps, t, "<finish>", to))
        self.current = to
        self.sems[to].release()


ACTIVE = None  # the scheduler of the run in progress (set by Monitor.install)


def cooperative_yield(label):
    """A yield point placed by harness data instead of by a line event: the module bodies of the pool's late
    modules call it between the two bytecodes of `class X(Base): ...` + `X = dataclass(X)`, where the interpreter
    may switch threads while the new class is already visible through Base.__subclasses__()."""
    sched = ACTIVE
    if sched is None:
        return
    t = sched.idents.get(threading.get_ident())
    if t is None or sched.suppress:
        return
    sched.yield_point(t, "<coop>" + label)


class Monitor:
    """Installs the monitoring callbacks for one run."""

    def __init__(self, sched, codes, opcode=False):
        self.sched = sched
        self.codes = codes
        self.opcode = opcode

    def install(self):
        sched = self.sched
        idents = sched.idents
        get_ident = threading.get_ident

        def on_line(code, line):
            t = idents.get(get_ident())
            if t is None or sched.suppress:
                return
            sched.yield_point(t, short_loc(code, line))

        def on_instr(code, offset):
            t = idents.get(get_ident())
            if t is None or sched.suppress:
                return
            sched.yield_point(t, short_loc(code, -offset))

        global ACTIVE
        ACTIVE = sched
        mon.use_tool_id(TOOL, "xsv-sched")
        ev = mon.events.INSTRUCTION if self.opcode else mon.events.LINE
        mon.register_callback(TOOL, ev, on_instr if self.opcode else on_line)
        for code in self.codes:
            mon.set_local_events(TOOL, code, ev)

    def uninstall(self):
        global ACTIVE
        ACTIVE = None
        for code in self.codes:
            mon.set_local_events(TOOL, code, 0)
        mon.free_tool_id(TOOL)


class CoverageCollector:
    """Which lines of the runtime does a call execute? Each location reports once (DISABLE)."""

    def __init__(self, codes):
        self.codes = codes
        self.locs = set()
        self.by_code = {}

    def install(self):
        locs = self.locs
        by_code = self.by_code
        tool = mon.COVERAGE_ID

        def on_line(code, line):
            loc = short_loc(code, line)
            locs.add(loc)
            by_code.setdefault(code, set()).add(loc)
            return mon.DISABLE

        mon.use_tool_id(tool, "xsv-cov")
        mon.register_callback(tool, mon.events.LINE, on_line)
        for code in self.codes:
            mon.set_local_events(tool, code, mon.events.LINE)

    def uninstall(self):
        tool = mon.COVERAGE_ID
        for code in self.codes:
            mon.set_local_events(tool, code, 0)
        mon.free_tool_id(tool)


class GlobalState:
    """Snapshot of the module-level mutable state of the library: containers bound to module globals
    or held by library objects bound to module globals (class attributes included), a few levels deep.
    Two snapshots are compared slot by slot; only slots present in both count (a slot that merely appears
    is a cache being filled, a slot whose value is replaced is state shared by every caller)."""

    MAX_DEPTH = 4
    MAX_ITEMS = 400

    @classmethod
    def snapshot(cls):
        snap = {}
        for modname in sorted(sys.modules):
            if not (modname == "xsdata" or modname.startswith("xsdata.")):
                continue
            mod = sys.modules.get(modname)
            if mod is None:
                continue
            for name, value in sorted(vars(mod).items()):
                if name.startswith("__") or isinstance(value, type(sys)):
                    continue
                if isinstance(value, type):
                    if getattr(value, "__module__", None) != modname:
                        continue
                    for attr, v in sorted(vars(value).items(), key=lambda kv: kv[0]):
                        if attr.startswith("__"):
                            continue
                        if isinstance(v, (list, dict, set)):
                            cls._walk((modname, f"{name}.{attr}"), v, snap, 0, set())
                        elif v is None or isinstance(v, (str, bytes, int, float, bool, tuple, frozenset)):
                            snap[(modname, f"{name}.{attr}")] = cls._token(v)  # plain data kept on the class itself
                    continue
                if callable(value) and not isinstance(value, (list, dict, set)) and not cls._library_object(value):
                    continue
                cls._walk((modname, name), value, snap, 0, set())
        return snap

    @staticmethod
    def _library_object(value):
        t = type(value)
        return (getattr(t, "__module__", "") or "").startswith("xsdata") and not isinstance(value, type)

    @classmethod
    def _token(cls, value):
        if value is None or isinstance(value, (bool, int, float, str, bytes)):
            return repr(value)[:80]
        if isinstance(value, (list, tuple, set, frozenset, dict)):
            return f"<{type(value).__name__} len={len(value)}>"
        return f"<{type(value).__module__}.{type(value).__qualname__}>"

    @classmethod
    def _walk(cls, path, value, snap, depth, seen):
        snap[path] = cls._token(value)
        if depth >= cls.MAX_DEPTH or id(value) in seen:
            return
        if isinstance(value, (list, tuple)):
            seen.add(id(value))
            for i, v in enumerate(value[: cls.MAX_ITEMS]):
                cls._walk(path + (i,), v, snap, depth + 1, seen)
        elif isinstance(value, dict):
            seen.add(id(value))
            for k, v in list(value.items())[: cls.MAX_ITEMS]:
                if isinstance(k, (str, int, bool, type(None), bytes, float)):
                    kk = repr(k)
                elif isinstance(k, type):
                    kk = f"{k.__module__}.{k.__qualname__}"
                else:
                    continue
                cls._walk(path + (kk,), v, snap, depth + 1, seen)
        elif isinstance(value, (set, frozenset)):
            snap[path] = f"<set {sorted(repr(x)[:40] for x in list(value)[: cls.MAX_ITEMS])}>"
        elif cls._library_object(value):
            seen.add(id(value))
            attrs = dict(getattr(value, "__dict__", {}) or {})
            for klass in type(value).__mro__:
                for slot in getattr(klass, "__slots__", ()) or ():
                    if isinstance(slot, str) and hasattr(value, slot):
                        attrs.setdefault(slot, getattr(value, slot))
            for k, v in sorted(attrs.items()):
                cls._walk(path + (f".{k}",), v, snap, depth + 1, seen)

    @staticmethod
    def replaced(before, after):
        """Slots present in both snapshots whose value differs: [(module, global name, path...)]."""
        out = [p for p, tok in after.items() if p in before and before[p] != tok]
        # a plain value that APPEARS directly on a module or class (not inside a container) is no cache fill either
        out += [p for p, tok in after.items() if p not in before and len(p) == 2 and not tok.startswith("<")]
        return sorted(out, key=repr)


class WriteRecorder:
    """Records where attributes of long-lived library objects are assigned after construction.

    Class-level __setattr__ hooks on the classes whose instances are shared between callers
    (context, cached metadata, parser/serializer tools and their configs, the converter factory
    and converters). Used in the reference pass only, never while threads are simulated."""

    def __init__(self):
        self.locs = set()
        self.patched = []
        self.setters = []

    def shared_classes(self):
        import importlib

        wanted = [
            ("xsdata.formats.dataclass.context", "XmlContext"), ("xsdata.formats.dataclass.models.elements", "XmlMeta"),
            ("xsdata.formats.dataclass.models.elements", "XmlVar"), ("xsdata.formats.dataclass.parsers.config", "ParserConfig"),
            ("xsdata.formats.dataclass.serializers.config", "SerializerConfig"), ("xsdata.formats.dataclass.parsers.mixins", "PushParser"),
            ("xsdata.formats.dataclass.parsers.bases", "NodeParser"), ("xsdata.formats.dataclass.parsers", "DictDecoder"),
            ("xsdata.formats.dataclass.serializers.mixins", "EventGenerator"), ("xsdata.formats.dataclass.serializers", "DictEncoder"),
            ("xsdata.formats.dataclass.serializers", "PycodeSerializer"), ("xsdata.formats.converter", "ConverterFactory"),
            ("xsdata.formats.converter", "Converter"),
        ]
        classes = []
        for modname, clsname in wanted:
            try:
                classes.append(getattr(importlib.import_module(modname), clsname))
            except Exception:
                pass  # the class moved or was renamed: the recorder simply knows less
        out = []
        seen = set()
        stack = list(classes)
        while stack:
            c = stack.pop()
            if c in seen:
                continue
            seen.add(c)
            out.append(c)
            try:
                stack.extend(c.__subclasses__())
            except TypeError:
                pass
        return out

    def install(self):
        locs = self.locs

        def make(cls):
            orig = cls.__dict__.get("__setattr__")
            base_setattr = cls.__setattr__

            def rec_setattr(self, name, value):
                f = sys._getframe(1)
                code = f.f_code
                if not (code.co_name in ("__init__", "__post_init__", "__new__") and f.f_locals.get("self") is self):
                    if "/xsdata/" in code.co_filename:
                        locs.add(short_loc(code, f.f_lineno))
                base_setattr(self, name, value)

            cls.__setattr__ = rec_setattr
            self.patched.append((cls, orig))

        for cls in self.shared_classes():
            try:
                make(cls)
            except TypeError:
                pass

    def uninstall(self):
        for cls, orig in reversed(self.patched):
            try:
                if orig is None:
                    del cls.__setattr__
                else:
                    cls.__setattr__ = orig
            except (TypeError, AttributeError):
                pass
        self.patched = []
        for mod, name, orig in reversed(self.setters):
            setattr(mod, name, orig)
        self.setters = []

    # setters of interpreter-wide state: a call that changes one of these, even if it puts the old value back
    # before it returns, shares that state with every other thread while it runs
    PROCESS_SETTERS = [
        ("sys", "setrecursionlimit"), ("sys", "setswitchinterval"), ("decimal", "setcontext"), ("locale", "setlocale"), ("os", "chdir"), ("os", "umask"), ("os", "putenv"),
        ("warnings", "simplefilter"), ("warnings", "filterwarnings"), ("warnings", "resetwarnings"), ("logging", "disable"), ("gc", "disable"), ("gc", "enable"),
        ("random", "seed"), ("time", "tzset"), ("socket", "setdefaulttimeout"),
    ]

    def install_process_setters(self):
        import importlib

        locs = self.locs

        def wrap(mod, name, orig):
            def recorded(*a, **kw):
                f = sys._getframe(1)
                if "/xsdata/" in f.f_code.co_filename:
                    locs.add(short_loc(f.f_code, f.f_lineno))
                return orig(*a, **kw)

            return recorded

        for modname, name in self.PROCESS_SETTERS:
            try:
                mod = importlib.import_module(modname)
                orig = getattr(mod, name)
            except Exception:
                continue
            setattr(mod, name, wrap(mod, name, orig))
            self.setters.append((mod, name, orig))


class StepCounter:
    """Counting-only monitor used to calibrate sequential step counts (no scheduling)."""

    def __init__(self, all_codes, shared_codes):
        self.all_codes = all_codes
        self.shared = shared_codes
        self.n_all = 0
        self.n_shared = 0

    def install(self):
        shared = self.shared

        def on_line(code, line):
            self.n_all += 1
            if code in shared:
                self.n_shared += 1

        mon.use_tool_id(TOOL, "xsv-count")
        mon.register_callback(TOOL, mon.events.LINE, on_line)
        for code in self.all_codes:
            mon.set_local_events(TOOL, code, mon.events.LINE)

    def uninstall(self):
        for code in self.all_codes:
            mon.set_local_events(TOOL, code, 0)
        mon.free_tool_id(TOOL)
