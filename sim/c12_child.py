"""C12 child: one code generation in a fresh interpreter under a simulated environment.

Started as:  PYTHONHASHSEED=<h> setarch -R python c12_child.py   (spec as JSON on stdin)
Environment components owned by the simulator (all derived from the spec, nothing from the real world):
  hash seed (interpreter start), heap layout (seeded allocate/free scramble that changes the relative
  addresses of later objects, hence id()-ordered containers), directory enumeration order (patched
  Path.glob / os.scandir / os.listdir), wall clock (patched datetime in xsdata.formats.mixins),
  in-process history (earlier generations in the same interpreter), invocation route (API / config
  file round trip / CLI flags / CLI + config file) and the --cache pickle.
Prints one JSON object: files {relative path: text}, write order, exception, intermediate-order probes.
"""
import hashlib
import io
import json
import re
import os
import random
import sys
import traceback

SPEC = json.load(sys.stdin)
REPO = SPEC["repo"]
VERIF = SPEC["verif"]
sys.path[:0] = [REPO, os.path.join(VERIF, "stubs"), os.path.join(VERIF, "sim", "c12", "extmods")]
os.environ["PATH"] = os.path.join(VERIF, "stubs", "bin") + os.pathsep + os.environ.get("PATH", "")
ENV = SPEC["env"]

# ---------------------------------------------------------------- heap layout
_keep = []


def scramble_heap(seed):
    """Allocate objects of the common size classes, then free a seeded subset in seeded order, so that
    later allocations of the same size come back at scrambled relative addresses."""
    if not seed:
        return
    rng = random.Random(seed)
    junk = []
    for size in (0, 1, 2, 3, 4, 6, 8, 12, 16, 24, 32, 48):
        for _ in range(rng.randrange(200, 1200)):
            junk.append([None] * size)
            junk.append("x" * (size * 8 + rng.randrange(8)))
            junk.append({i: i for i in range(size % 5)})
            junk.append(object())
    rng.shuffle(junk)
    cut = rng.randrange(len(junk) // 4, 3 * len(junk) // 4)
    _keep.append(junk[:cut])
    del junk[cut:]
    del junk


scramble_heap(ENV.get("heap"))

# ---------------------------------------------------------------- directory order
import pathlib  # noqa: E402

if ENV.get("dir_seed"):
    _drng_seed = ENV["dir_seed"]
    _orig_glob = pathlib.Path.glob
    _orig_listdir = os.listdir
    _orig_scandir = os.scandir

    def _perm(items, key):
        items = list(items)
        random.Random(f"{_drng_seed}/{key}").shuffle(items)
        return items

    def _glob(self, pattern, **kw):
        return iter(_perm(sorted(_orig_glob(self, pattern, **kw)), f"{self}/{pattern}"))

    def _listdir(path="."):
        return _perm(sorted(_orig_listdir(path)), f"ls/{path}")

    class _Scan:
        def __init__(self, path):
            with _orig_scandir(path) as it:
                self.items = _perm(sorted(it, key=lambda e: e.name), f"scan/{path}")

        def __iter__(self):
            return self

        def __next__(self):
            if not self.items:
                raise StopIteration
            return self.items.pop(0)

        def __enter__(self):
            return self

        def __exit__(self, *a):
            return False

        def close(self):
            pass

    pathlib.Path.glob = _glob
    os.listdir = _listdir
    os.scandir = lambda path=".": _Scan(path)

# ---------------------------------------------------------------- imports of the system under test
import datetime as _dt  # noqa: E402
import logging  # noqa: E402
import warnings  # noqa: E402

warnings.simplefilter("ignore")

import xsdata  # noqa: E402

assert os.path.realpath(os.path.dirname(xsdata.__file__)) == os.path.realpath(os.path.join(REPO, "xsdata")), xsdata.__file__

from xsdata.codegen.transformer import ResourceTransformer  # noqa: E402
from xsdata.formats import mixins as _fmixins  # noqa: E402
from xsdata.logger import logger  # noqa: E402
from xsdata.models.config import GeneratorConfig  # noqa: E402

logger.setLevel(logging.CRITICAL)

# ---------------------------------------------------------------- clock
_T = ENV.get("clock", "2001-02-03T04:05:06")


class _FakeDateTime(_dt.datetime):
    @classmethod
    def now(cls, tz=None):
        return cls.fromisoformat(_T)


class _FakeModule:
    datetime = _FakeDateTime

    def __getattr__(self, item):
        return getattr(_dt, item)


_fake_dt_module = _FakeModule()
_fmixins.datetime = _fake_dt_module


def patch_clock_everywhere():
    """Every xsdata module that holds the datetime module or class gets the simulated one; time.time() is fixed."""
    import time as _time

    fixed = _FakeDateTime.fromisoformat(_T).timestamp()
    _time.time = lambda: fixed
    _time.time_ns = lambda: int(fixed * 1e9)
    _time.localtime = lambda *a: _time.gmtime(fixed)
    _time.strftime_orig = _time.strftime
    for name, mod in list(sys.modules.items()):
        if mod is None or not name.startswith("xsdata"):
            continue
        for attr, val in list(vars(mod).items()):
            if val is _dt:
                setattr(mod, attr, _fake_dt_module)
            elif val is _dt.datetime:
                setattr(mod, attr, _FakeDateTime)


# ---------------------------------------------------------------- intermediate-order probes
PROBES = {}


def _probe(name, seq):
    h = PROBES.setdefault(name, hashlib.sha256())
    h.update(repr(list(seq)).encode())
    h.update(b"|")


def install_probes():
    from xsdata.codegen import models as cmodels
    from xsdata.codegen.handlers import designate_class_packages as dcp
    from xsdata.utils import graphs

    orig_scc = graphs.strongly_connected_components

    def scc(edges):
        _probe("scc_vertex_order", list(set(edges)))
        for comp in orig_scc(edges):
            _probe("scc_component_order", list(comp))
            yield comp

    graphs.strongly_connected_components = scc
    if hasattr(dcp, "strongly_connected_components"):
        dcp.strongly_connected_components = scc
    orig_native = cmodels.Attr.native_types

    def native_types(self):
        out = orig_native.fget(self)
        _probe("native_types_order", [t.__name__ for t in out])
        return out

    cmodels.Attr.native_types = property(native_types)
    orig_restr = cmodels.Restrictions.__init__ if hasattr(cmodels, "Restrictions") else None
    del orig_restr


try:
    install_probes()
except Exception:  # the probes are best effort; they never influence the outcome
    PROBES["probe_install_error"] = hashlib.sha256(traceback.format_exc().encode())


# ---------------------------------------------------------------- routes
SOURCE_EXTENSIONS = ("wsdl", "xsd", "dtd", "xml", "json")


def resolve(source, recursive):
    """The URIs a caller of the programmatic API passes for a source: the file itself, or the supported
    files a listing of the directory shows (the harness's own listing, not the command line's)."""
    if "://" in source and not source.startswith("file://"):
        return [source]
    top = os.path.realpath(source)
    if not os.path.isdir(top):
        return [pathlib.Path(top).as_uri()]
    found = []
    for root, dirs, names in os.walk(top):
        dirs.sort()
        for nm in names:
            if "." in nm and nm.rsplit(".", 1)[1] in SOURCE_EXTENSIONS:
                found.append(pathlib.Path(os.path.join(root, nm)).as_uri())
        if not recursive:
            break
    return sorted(found)


def apply_params(cfg, params):
    """Output options go through GeneratorOutput.update exactly like the command line does;
    `adv` holds settings that have no command line flag (naming conventions, substitutions)."""
    from xsdata.models import config as C
    from xsdata.utils import objects

    cfg.output.update(**{k.replace("__", "."): _coerce(cfg, k, v) for k, v in params.items() if k not in ("adv", "create")})
    adv = params.get("adv") or {}
    for key, value in adv.items():
        if key == "substitutions":
            for tp, search, replace in value:
                cfg.substitutions.substitution.append(C.GeneratorSubstitution(type=C.ObjectType(tp), search=search, replace=replace))
        elif key == "extensions":
            for tp, pattern, import_string, prepend in value:
                cfg.extensions.extension.append(C.GeneratorExtension(type=C.ExtensionType(tp), class_name=pattern, import_string=import_string, prepend=prepend))
        elif key.endswith(".case"):
            objects.update(cfg, **{key: C.NameCase(value)})
        else:
            objects.update(cfg, **{key: value})


def _coerce(cfg, key, value):
    from xsdata.models import config as C

    if key == "structure_style":
        return C.StructureStyle(value)
    if key == "docstring_style":
        return C.DocstringStyle(value)
    return value


def flags_for(params):
    from xsdata import cli

    cmd = cli.cli.commands["generate"]
    by_dest = {p.name: p for p in cmd.params if hasattr(p, "on")}
    argv = []
    for key in sorted(params):
        if key in ("adv", "create"):
            continue
        value = params[key]
        opt = by_dest[key]
        if opt.is_flag:
            names = opt.on if value else opt.off
            argv.append(sorted(names)[0])
        else:
            longs = sorted(n for n in opt.on if n.startswith("--"))
            argv += [longs[0], str(value)]
    return argv


def spell_source(source, workdir):
    """The same source as the user might type it on the command line."""
    how = ENV.get("source_spelling")
    if not how or "://" in source:
        return source
    rel = os.path.relpath(source, workdir)
    if how == "rel":
        return rel
    if how == "dot":
        return os.path.join(".", rel)
    if how == "slash":
        return source + "/" if os.path.isdir(source) else source
    if how == "uri":
        return pathlib.Path(source).as_uri()
    if how == "uri1":
        return "file:" + pathlib.Path(source).as_uri()[len("file://") :]  # the single-slash form of RFC 8089
    if how == "dotdot":
        return os.path.join(os.path.dirname(source), "..", os.path.basename(os.path.dirname(source)), os.path.basename(source))
    return source


def write_config(path, params):
    cfg = GeneratorConfig.create() if params.get("create") else GeneratorConfig()
    apply_params(cfg, params)
    with open(path, "w", encoding="utf-8") as fp:
        GeneratorConfig.write(fp, cfg)
    stamp = ENV.get("config_version")
    if stamp is not None:
        import re

        with open(path, encoding="utf-8") as fp:
            text = fp.read()
        text, n = re.subn(r'(<Config\b[^>]*\bversion=")[^"]*(")', lambda m: m.group(1) + stamp + m.group(2), text, count=1)
        if n:
            with open(path, "w", encoding="utf-8") as fp:
                fp.write(text)
    if ENV.get("init_roundtrip"):
        from xsdata import cli

        out, err = sys.stdout, sys.stderr
        sys.stdout = sys.stderr = io.StringIO()
        try:
            cli.cli.main(["init-config", path], standalone_mode=False)
        except BaseException:  # noqa: BLE001 - whatever it leaves behind is what the generation then reads
            pass
        finally:
            sys.stdout, sys.stderr = out, err
    edits = ENV.get("config_text") or []
    if edits:
        # the same project file as another editor or tool would have saved it
        with open(path, "rb") as fp:
            raw = fp.read()
        if "bool10" in edits:
            raw = raw.replace(b">true<", b">1<").replace(b">false<", b">0<").replace(b'="true"', b'="1"').replace(b'="false"', b'="0"')
        if "comment" in edits:
            raw = raw.replace(b"<Output", b"<!-- edited by hand -->\n  <Output", 1).replace(b"</Config>", b"  <!-- end -->\n</Config>\n<!-- trailing -->", 1)
        if "nodecl" in edits and raw.startswith(b"<?xml"):
            raw = raw[raw.index(b"?>") + 2 :].lstrip()
        if "crlf" in edits:
            raw = raw.replace(b"\r\n", b"\n").replace(b"\n", b"\r\n")
        if "bom" in edits:
            raw = b"\xef\xbb\xbf" + raw
        with open(path, "wb") as fp:
            fp.write(raw)


def generate(source, recursive, params, route, cache, workdir):
    """One generation with cwd=workdir. Returns (files, order, exception)."""
    os.makedirs(workdir, exist_ok=True)
    os.chdir(workdir)
    written = []
    orig_write_text = pathlib.Path.write_text

    def write_text(self, data, *a, **kw):
        written.append(os.path.relpath(str(self), workdir))
        return orig_write_text(self, data, *a, **kw)

    pathlib.Path.write_text = write_text
    exc = None
    try:
        if route == "api":
            cfg = GeneratorConfig.create() if params.get("create") else GeneratorConfig()
            apply_params(cfg, params)
            ResourceTransformer(config=cfg).process(resolve(source, recursive), cache=cache)
        elif route == "api_file":
            cfgfile = os.path.join(workdir, "cfg-roundtrip.xml")
            write_config(cfgfile, params)
            cfg = GeneratorConfig.read(pathlib.Path(cfgfile))
            os.remove(cfgfile)
            ResourceTransformer(config=cfg).process(resolve(source, recursive), cache=cache)
        else:
            from xsdata import cli

            argv = ["generate", spell_source(source, workdir)]
            if recursive:
                argv.append("-r")
            if cache:
                argv.append("--cache")
            cfgfile = os.path.join(workdir, "cfg-cli.xml")
            if ENV.get("config_in_source") and os.path.isdir(source) and source.startswith(SPEC["workdir"]):
                cfgfile = os.path.join(source, ".xsdata.xml")  # where `xsdata init-config` puts it when run in the source directory
            if route == "cli_flags" and params.get("create"):
                # `xsdata init-config` writes the stock configuration, the options travel as flags
                out, err = sys.stdout, sys.stderr
                sys.stdout = sys.stderr = io.StringIO()
                try:
                    cli.cli.main(["init-config", cfgfile], standalone_mode=False)
                finally:
                    sys.stdout, sys.stderr = out, err
                argv += ["-c", cfgfile] + flags_for(params)
            elif route == "cli_flags":
                argv += ["-c", os.path.join(workdir, "does-not-exist.xml")] + flags_for(params)
            elif route == "cli_config":
                write_config(cfgfile, params)
                argv += ["-c", cfgfile]
            elif route == "cli_mixed":
                keys = sorted(k for k in params if k not in ("adv", "create"))
                file_keys, cli_keys = (keys[1::2], keys[::2]) if ENV.get("mixed_parity") else (keys[::2], keys[1::2])
                in_file = {k: params[k] for k in file_keys}
                if params.get("adv"):
                    in_file["adv"] = params["adv"]
                if params.get("create"):
                    in_file["create"] = True
                on_cli = {k: params[k] for k in cli_keys}
                write_config(cfgfile, in_file)
                argv += ["-c", cfgfile] + flags_for(on_cli)
            else:
                raise ValueError(route)
            out, err = sys.stdout, sys.stderr
            sys.stdout = sys.stderr = io.StringIO()
            try:
                cli.cli.main(argv, standalone_mode=False)
            finally:
                sys.stdout, sys.stderr = out, err
            if os.path.exists(cfgfile):
                os.remove(cfgfile)
    except BaseException as e:  # noqa: BLE001 - exceptions are part of the observable output
        exc = f"{type(e).__module__}.{type(e).__qualname__}: {e}"
        if not isinstance(e, Exception):
            exc = "BASE " + exc
    finally:
        pathlib.Path.write_text = orig_write_text
    files = {}
    for root, dirs, names in os.walk(workdir):
        dirs.sort()
        for nm in sorted(names):
            p = os.path.join(root, nm)
            rel = os.path.relpath(p, workdir)
            if rel.startswith("cfg-") or "__pycache__" in rel or rel.endswith(".cache"):
                continue
            with open(p, encoding="utf-8", errors="replace") as f:
                files[rel] = f.read()
    return files, written, exc


def relocate_source(work):
    """The same sources under another absolute path (a copy of the directory they live in)."""
    import shutil

    name = ENV.get("source_copy")
    src = SPEC["source"]
    if not name:
        return src
    srcdir = src if os.path.isdir(src) else os.path.dirname(src)
    dest = os.path.join(work, name, os.path.basename(srcdir.rstrip("/")))
    os.makedirs(os.path.dirname(dest), exist_ok=True)
    shutil.copytree(srcdir, dest, ignore=shutil.ignore_patterns("__pycache__", "*.pyc"))
    return dest if os.path.isdir(src) else os.path.join(dest, os.path.basename(src))


def edit_one_schema(source):
    """Add a global element to the first schema file below `source`; returns (path, original bytes) or None."""
    top = source if os.path.isdir(source) else os.path.dirname(source)
    for root, dirs, names in os.walk(top):
        dirs.sort()
        for nm in sorted(names):
            if nm.endswith(".xsd"):
                path = os.path.join(root, nm)
                with open(path, "rb") as fp:
                    original = fp.read()
                i = original.rfind(b"</")
                m = re.search(rb"<([A-Za-z_][\w.-]*:)?schema\b", original)
                if i < 0 or not m:
                    continue
                prefix = (m.group(1) or b"")
                extra = b"<" + prefix + b'element name="verifAddedByAnEarlierEdit" type="' + prefix + b'string"/>'
                with open(path, "wb") as fp:
                    fp.write(original[:i] + extra + original[i:])
                return path, original
    return None


def main():
    try:
        import xsdata.cli  # noqa: F401 - load everything before patching the clock into the modules
    except Exception:
        pass
    patch_clock_everywhere()
    work = SPEC["workdir"]
    SPEC["source"] = relocate_source(work)
    os.environ["TMPDIR"] = os.path.join(work, "tmp")
    os.makedirs(os.environ["TMPDIR"], exist_ok=True)
    import tempfile

    tempfile.tempdir = None
    history = []
    for i, h in enumerate(ENV.get("history", [])):
        hp = dict(h["params"], package=SPEC["params"].get("package", "gen") if ENV.get("history_same_package") else f"hist{i}")
        f, w, e = generate(h["source"], h.get("recursive", False), hp, h.get("route", "api"), bool(ENV.get("cache")), os.path.join(work, f"hist{i}"))
        history.append({"files": len(f), "exc": e})
    if ENV.get("edit_between") and SPEC["source"].startswith(work):
        # the same files, at the same place, had other content when this interpreter generated from them a moment ago
        edited = edit_one_schema(SPEC["source"])
        if edited:
            path, original = edited
            f, w, e = generate(SPEC["source"], SPEC.get("recursive", False), dict(SPEC["params"], package="edited"), "api", False, os.path.join(work, "hist-edited"))
            history.append({"files": len(f), "exc": e, "edited": os.path.basename(path)})
            with open(path, "wb") as fp:
                fp.write(original)
    params = dict(SPEC["params"])
    repeat = ENV.get("repeat", 1)
    out = None
    for _ in range(repeat):
        out = generate(SPEC["source"], SPEC.get("recursive", False), params, ENV.get("route", "api"), bool(ENV.get("cache")), os.path.join(work, "out"))
    files, written, exc = out
    res = {
        "files": files,
        "written": written,
        "exc": exc,
        "history": history,
        "probes": {k: v.hexdigest()[:16] for k, v in sorted(PROBES.items())},
        "hashseed": os.environ.get("PYTHONHASHSEED"),
        "id_sample": id(object()) % 100000,
    }
    sys.stdout.write("RESULT " + json.dumps(res) + "\n")


main()
