"""C14: parsers, serializers and the context are history-independent.

A seeded history of calls (succeeding, failing, and failing at an injected fault point)
runs against long-lived shared instances; after every step the result is compared with
(O1) the same call on instances created for that one call, in the same process, under the
same fault, and (O2) the same call executed alone in a pristine process (table R).
"""
import random

from sim import core
from sim import ops as O
from sim.c19 import GROUPS, current_M

PROP = "C14"
FAULT_KINDS = ["reader_chunks", "reader_oserror", "reader_interrupt", "reader_eof", "writer_enospc", "writer_interrupt", "factory", "factory_interrupt", "load", "dump"]


def gen_fault(rng, op, enabled):
    """Pick an injected fault the operation supports, or None."""
    choices = []
    for kind in enabled:
        target = kind.split("_")[0]
        if target in op.faults:
            choices.append(kind)
    if not choices:
        return None
    kind = rng.choice(choices)
    if kind == "reader_chunks":
        return {"t": "reader", "kind": kind, "chunks": [rng.choice([1, 2, 3, 5, 7, 16, 64, 333]) for _ in range(rng.choice([1, 2, 4]))]}
    if kind in ("reader_oserror", "reader_interrupt"):
        f = {"t": "reader", "kind": kind, "raise_at": rng.choice([1, 1, 2, 2, 3, 5, 9, 20]), "raise_kind": "interrupt" if kind.endswith("interrupt") else "oserror"}
        if rng.random() < 0.7:
            f["chunks"] = [rng.choice([1, 3, 8, 32, 100])]
        return f
    if kind == "reader_eof":
        return {"t": "reader", "kind": kind, "eof_at": rng.choice([0, 1, 5, 17, 40, 80, 150, 300, 600])}
    if kind in ("writer_enospc", "writer_interrupt"):
        return {"t": "writer", "kind": kind, "raise_at": rng.choice([1, 2, 3, 4, 6, 9, 14, 25, 60]), "raise_kind": "interrupt" if kind.endswith("interrupt") else "enospc"}
    if kind in ("factory", "factory_interrupt"):
        return {"t": "factory", "kind": kind, "raise_at": rng.choice([1, 1, 2, 3, 5]), "raise_kind": "interrupt" if kind.endswith("interrupt") else "error"}
    if kind == "load":
        return {"t": "load", "kind": kind, "raise_at": 1, "raise_kind": rng.choice(["error", "interrupt"])}
    if kind == "dump":
        return {"t": "dump", "kind": kind, "raise_at": 1, "raise_kind": rng.choice(["error", "interrupt"])}
    return None


SCRIBBLE_KINDS = ("parse_xml", "user_parse", "tree_parse", "parse_json", "dict_decode", "dict_encode")
_tool_ops = {}


def ops_by_tool():
    if not _tool_ops:
        for op in core.Z.ops:
            if op.tool:
                _tool_ops.setdefault(op.tool, []).append(op)
    return _tool_ops


def gen_late_directed(seed, rng, nctx):
    """Calls that warm the instances up, then a module of further models is imported, then a call that
    needs the new models goes through the same instances."""
    from sim.pool import catalog as C

    sensitive = [op for op in core.Z.ops if op.ck in C.L3_SENSITIVE]
    if sensitive and rng.random() < 0.3:
        # calls about a class whose field type gets its converter from a module imported in between
        steps = [{"op": rng.choice(sensitive).name, "ctx": 0} for _ in range(rng.choice([1, 2, 3]))]
        if rng.random() < 0.5:
            steps.insert(rng.randrange(len(steps) + 1), {"op": rng.choice([o for o in core.Z.ops if not o.needs]).name, "ctx": 0})
        steps.append({"import": "L3"})
        steps += [{"op": rng.choice(sensitive).name, "ctx": 0} for _ in range(rng.choice([1, 2, 3]))]
        return {"seed": seed, "nctx": 1, "steps": steps, "strategy": "late-directed"}
    late_ops = [op for op in core.Z.ops if op.needs]
    if not late_ops:
        return None
    target = rng.choice(late_ops)
    same_tool = [op for op in ops_by_tool().get(target.tool, []) if not op.needs] if target.tool else []
    same_group = [op for op in core.Z.ops if not op.needs and op.group == target.group]
    ctx_ops = [op for op in core.Z.ops if not op.needs and op.group in ("ctx", "noclass")]
    steps = []
    for _ in range(rng.choice([1, 1, 2, 3, 5])):
        pool = rng.choice([same_tool, same_tool, same_group, ctx_ops]) or same_group or ctx_ops
        related = [op for op in pool if op.group == target.group]
        op = rng.choice(related if related and rng.random() < 0.7 else pool)
        steps.append({"op": op.name, "ctx": 0})
    other = "L2" if target.needs == "L1" else "L1"
    if rng.random() < 0.3:
        steps.insert(rng.randrange(len(steps) + 1), {"import": other})
    steps.append({"import": target.needs})
    steps.append({"op": target.name, "ctx": 0})
    for _ in range(rng.choice([0, 1, 2])):
        op = rng.choice([o for o in late_ops if o.needs == target.needs])
        steps.append({"op": op.name, "ctx": 0})
    return {"seed": seed, "nctx": 1, "steps": steps, "strategy": "late-directed"}


def _gen_spec(seed):
    rng = random.Random(seed)
    by_group = {}
    for op in core.Z.ops:
        by_group.setdefault(op.group, []).append(op)
    focus = rng.sample(GROUPS[:-2], rng.choice([1, 1, 2, 2, 3, 7]))
    cands = [op for g in focus for op in by_group.get(g, ())]
    if rng.random() < 0.6:
        cands += by_group.get("noclass", [])
    if rng.random() < 0.5:
        cands += by_group.get("ctx", [])
    if rng.random() < 0.4:
        # collide on few documents/objects
        key = lambda op: op.name.split(":")[2] if op.kind == "parse_xml" else op.name.split(":")[1]  # noqa: E731
        docs = sorted({key(op) for op in cands})
        keep = set(rng.sample(docs, min(len(docs), rng.choice([2, 3, 5, 8]))))
        cands = [op for op in cands if key(op) in keep] or cands
    if rng.random() < 0.5:
        kinds = sorted({op.kind for op in cands})
        keepk = set(rng.sample(kinds, max(1, len(kinds) // 2)))
        cands = [op for op in cands if op.kind in keepk] or cands
    nctx = rng.choice([1, 1, 1, 2])
    length = rng.choice([2, 2, 3, 3, 4, 5, 6, 8, 10, 15, 25, 40])
    enabled = rng.sample(FAULT_KINDS, rng.choice([0, 2, 4, len(FAULT_KINDS)]))
    fault_rate = rng.choice([0.0, 0.1, 0.25]) if enabled else 0.0
    imported = set()
    steps = []
    if rng.random() < 0.08:
        directed = gen_late_directed(seed, rng, nctx)
        if directed:
            return directed
    tool_ops = ops_by_tool()
    reconf_at = set(rng.sample(range(1, max(2, length)), min(max(1, length - 1), rng.choice([1, 2, 3])))) if rng.random() < 0.25 and length > 2 else set()
    p_scribble = rng.choice([0.0, 0.0, 0.3, 0.6])
    reset_at = rng.randrange(1, length) if length > 2 and rng.random() < 0.12 else -1
    used_tools = {}
    forced = []
    late_plan = {}
    if rng.random() < 0.45:
        for key in rng.sample(["L1", "L2", "L3"], rng.choice([1, 2, 3])):
            late_plan[rng.randrange(length)] = key
    for i in range(length):
        if i in late_plan:
            steps.append({"import": late_plan[i]})
            imported.add(late_plan[i])
        if i in reconf_at and used_tools:
            # the caller changes the configuration of a tool that has been used; calls through it follow
            ci, key = rng.choice(sorted(used_tools))
            if key[0] in O.CONFIG_SLOT and "factory" not in key[1:]:
                slot = O.CONFIG_SLOT[key[0]]
                options = sorted({k[slot] for k in tool_ops if k[0] == key[0] and k[:slot] == key[:slot] and k[slot] != key[slot] and not (k[0] in ("jp", "js") and k[slot] == "factory")})
                if options:
                    cfg = rng.choice(options)
                    new_key = key[:slot] + (cfg,) + key[slot + 1 :]
                    steps.append({"reconfig": list(key), "cfg": cfg, "ctx": ci, "how": rng.choice(["inplace", "inplace", "replace"])})
                    used_tools.pop((ci, key), None)
                    used_tools[(ci, new_key)] = True
                    follow = [o for o in tool_ops.get(new_key, []) if not o.needs or o.needs in imported]
                    focus_follow = [o for o in follow if o.group in focus] or follow
                    forced = [(ci, rng.choice(focus_follow)) for _ in range(rng.choice([1, 2, 3]))] if focus_follow else []
        if i == reset_at:
            steps.append({"reset": rng.randrange(nctx)})  # XmlContext.reset(): every cache is dropped, calls go on
        pool = [op for op in cands if not op.needs or op.needs in imported]
        if imported and rng.random() < 0.4:
            latepool = [op for op in core.Z.ops if op.needs in imported and (op.group in focus or op.group in ("noclass", "ctx"))]
            pool = latepool or pool
        if not pool:
            continue
        op = rng.choice(pool)
        if core.Z.sensitive and rng.random() < 0.12:
            op = core.Z.op_by_name[rng.choice(core.Z.sensitive)]  # a call that is easy to disturb
        step = {"op": op.name, "ctx": rng.randrange(nctx)}
        if forced:
            ci, op = forced.pop(0)
            step = {"op": op.name, "ctx": ci}
        if op.tool:
            used_tools[(step["ctx"], op.tool)] = True
        if p_scribble and op.kind in SCRIBBLE_KINDS and rng.random() < p_scribble:
            step["scribble"] = True
        if fault_rate and rng.random() < fault_rate:
            f = gen_fault(rng, op, enabled)
            if f:
                step["fault"] = f
        steps.append(step)
    return {"seed": seed, "nctx": nctx, "steps": steps}


def gen_spec(seed):
    spec = _gen_spec(seed)
    # the callers of some runs keep one instance of every object they serialize and of every decoded document
    # they pass to DictDecoder (an own stream of choices, so that the rest of the run is what it was before)
    if random.Random(seed ^ 0x1A5B).random() < 0.1:
        # one prefix map for everything these callers do: parsers record into it, serializers receive the same object
        spec["share_nsmap"] = True
    if random.Random(seed ^ 0x5A17).random() < 0.2:
        spec["share_inputs"] = True  # (what a call returns must not alias what the caller passed in: both may be changed later)
    return spec


def run_spec(spec, R):
    core.child_init()
    O.SHARED_INPUTS = {} if spec.get("share_inputs") else None
    O.SHARED_NSMAP = {} if spec.get("share_nsmap") else None
    byname = core.Z.op_by_name
    envs = [O.Env() for _ in range(spec.get("nctx", 1))]
    viol = []
    log = []
    faults = {}
    fired = {}
    pairs = set()
    prev_on_ctx = {}
    probes = {"parse_after_failed_parse_same_parser": 0, "serialize_after_sink_fault": 0, "index_rebuilt_after_import": 0, "step_after_fault": 0, "meta_cache_hit_other_parent_ns": 0, "reconfigured_live_tool": 0, "context_reset_between_calls": 0, "caller_changed_returned_object": 0}
    last_failed_tool = {}
    pending_fault = False
    imported_since = [False] * len(envs)
    for i, step in enumerate(spec["steps"]):
        if "import" in step:
            core.register_late(step["import"])
            log.append(("import", step["import"]))
            imported_since = [True] * len(envs)
            continue
        if "reset" in step:
            envs[step["reset"] % len(envs)].context.reset()
            log.append(("reset", step["reset"]))
            probes["context_reset_between_calls"] += 1
            continue
        if "reconfig" in step:
            done = O.reconfigure(envs[step.get("ctx", 0) % len(envs)], tuple(step["reconfig"]), step["cfg"], step.get("how", "inplace"))
            log.append(("reconfig", tuple(step["reconfig"]), step["cfg"], bool(done)))
            probes["reconfigured_live_tool"] += bool(done)
            continue
        op = byname[step["op"]]
        ci = step.get("ctx", 0) % len(envs)
        env = envs[ci]
        fault = step.get("fault")
        m = frozenset(current_M())
        if pending_fault:
            probes["step_after_fault"] += 1
        if op.tool and last_failed_tool.get((ci, op.tool)):
            probes["parse_after_failed_parse_same_parser" if op.kind.startswith(("parse", "user", "tree_parse", "dict_decode")) else "serialize_after_sink_fault"] += 1
        if imported_since[ci] and getattr(env.context, "sys_modules", 0):
            probes["index_rebuilt_after_import"] += 1
        rec = O.execute(op, env, fault, O.scribble if step.get("scribble") else None)
        probes["caller_changed_returned_object"] += bool(rec.pop("post", 0))
        if getattr(env.context, "sys_modules", 0):
            imported_since[ci] = False
        fresh = O.execute(op, O.Env(), fault)
        log.append((step["op"], ci, rec["k"], rec["v"], tuple(rec["w"]), tuple(rec["l"])))
        if fault:
            faults[fault["kind"]] = faults.get(fault["kind"], 0) + 1
            if rec.get("fired"):
                fired[fault["kind"]] = fired.get(fault["kind"], 0) + 1
        pending_fault = bool(fault and rec.get("fired"))
        if op.tool:
            last_failed_tool[(ci, op.tool)] = rec["k"] == "exc"
        prev = prev_on_ctx.get(ci)
        if prev is not None:
            pairs.add((prev, f"{op.kind}/{op.group}"))
        prev_on_ctx[ci] = f"{op.kind}/{op.group}"
        if not O.same(rec, fresh):
            viol.append(
                {
                    "clause": "O1_shared_differs_from_fresh_instances",
                    "step": i,
                    "op": op.name,
                    "fault": fault,
                    "got": {k: rec[k] for k in ("k", "v", "w", "l")},
                    "fresh": {k: fresh[k] for k in ("k", "v", "w", "l")},
                    "sig": ["history", "O1", op.kind, rec["k"], rec["v"].split(":")[0] if rec["k"] == "exc" else "value"],
                }
            )
        elif fault is None and (op.name, m) in R and not (spec.get("share_nsmap") and op.kind in ("ser_xml", "tree_ser")):
            # (with a caller-held prefix map the output of a serializer legitimately follows what the map has collected)
            ref = R[(op.name, m)]
            if not O.same(rec, ref):
                viol.append(
                    {
                        "clause": "O2_differs_from_pristine_process",
                        "step": i,
                        "op": op.name,
                        "fault": fault,
                        "got": {k: rec[k] for k in ("k", "v", "w", "l")},
                        "pristine": {k: ref[k] for k in ("k", "v", "w", "l")},
                        "sig": ["history", "O2", op.kind, rec["k"], rec["v"].split(":")[0] if rec["k"] == "exc" else "value"],
                    }
                )
        _names = [st.get("op", "") for st in spec["steps"][: i + 1]]
        if viol and ":globalns" in op.name and any(":globalns2" in nm for nm in _names) and any(":globalns" in nm and ":globalns2" not in nm for nm in _names):
            # metadata built under one SerializerConfig.globalns serves every later caller (recorded finding)
            for v in viol:
                if v["sig"][0] != "globalns-override":
                    v["sig"] = ["globalns-override"] + list(v["sig"])
        if viol:
            break
    nsmap_sizes = [len(t.ns_map) for e in envs for t in e.tools.values() if hasattr(t, "ns_map")]
    return {
        "seed": spec.get("seed", 0),
        "viol": viol,
        "steps": len(log),
        "faults": faults,
        "fired": fired,
        "pairs": sorted(pairs),
        "probes": probes,
        "parser_ns_map_max": max(nsmap_sizes) if nsmap_sizes else 0,
        "digest": core.digest(log),
        "hist_digest": core.digest(spec["steps"]),
    }


# ---------------------------------------------------------------- exhaustive ordered pairs
def run_pairs(item, R):
    """(a, [b...]): for each b run `a; b` on fresh shared instances and check b. Global state accumulates
    across pairs inside this child, which only makes the history longer."""
    core.child_init()
    a_name, b_names, mods = item
    for k in mods:
        core.register_late(k)
    m = frozenset(mods)
    byname = core.Z.op_by_name
    a = byname[a_name]
    out = {"pairs": 0, "viol": []}
    for b_name in b_names:
        b = byname[b_name]
        env = O.Env()
        O.execute(a, env)
        rec = O.execute(b, env)
        out["pairs"] += 1
        ref = R[(b_name, m)]
        if not O.same(rec, ref):
            out["viol"].append({"a": a_name, "b": b_name, "mods": list(mods), "before": list(b_names[: out["pairs"] - 1]), "got": {k: rec[k] for k in ("k", "v", "w", "l")}, "pristine": {k: ref[k] for k in ("k", "v", "w", "l")}})
            if len(out["viol"]) > 5:
                break
    return out
