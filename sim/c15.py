"""C15: bad input fails cleanly.

A stored valid document, a delivery path the simulator owns (SimReader with a seeded chunk
schedule) and faults on either: storage faults on the bytes, delivery faults (early EOF),
structural faults on the element tree / JSON value. Oracle: the call returns an instance
of the requested class or raises a documented error, within a step budget; the native
handler rejects whatever an independent expat run rejects.
"""
import copy
import io
import json
import os
import random
import re
import sys
import time
import traceback
import types

from sim import core
from sim.simio import SimReader

PROP = "C15"
mon = sys.monitoring
TOOL = mon.PROFILER_ID

DOCUMENTED = ("ParserError", "ConverterError", "XmlContextError", "XmlHandlerError")
XSI = "http://www.w3.org/2001/XMLSchema-instance"

BYTE_FAULTS = ["bitflip", "bitflip", "overwrite", "overwrite", "delete_range", "delete_range", "dup_range", "dup_range", "zero_range", "garbage_range", "garbage_range", "truncate", "truncate", "truncate", "concat", "concat",
               "random_bytes", "random_bytes", "insert_bytes", "insert_bytes", "pad_truncate", "pad_only"]
BOUNDARIES = [255, 256, 257, 1023, 1024, 1025, 4095, 4096, 4097, 8191, 8192, 8193, 16383, 16384, 16385, 32767, 32768, 32769, 65535, 65536, 65536, 65537, 131072]
XML_STRUCT_FAULTS = [
    "text_corrupt", "text_corrupt", "text_corrupt", "attr_corrupt", "attr_corrupt", "attr_corrupt",
    "el_delete", "el_dup", "el_retag", "el_reorder", "el_move", "text_corrupt", "attr_corrupt", "attr_delete", "attr_add",
    "child_in_simple", "xsi_type_bad", "xsi_type_empty", "xsi_type_unbound", "xsi_nil_true", "xsi_nil_false", "undeclared_prefix",
    "wrong_root", "dup_attr", "prolog_encoding", "prolog_doctype", "ns_change", "xsi_type_class", "xsi_type_class", "xsi_type_class_empty", "xsi_other_attr", "el_dup_many", "nest_self", "text_long", "attr_many", "insert_misc", "insert_misc", "xinclude_junk", "prolog_version", "deep_wrap",
]
JSON_STRUCT_FAULTS = ["value_text", "value_text", "value_text", "key_delete", "key_rename", "key_rename", "value_junk", "value_junk", "list_wrap", "list_unwrap", "key_add", "list_grow", "nest_value", "key_hoist", "json_deep"]
DEEP_LEVELS = [50, 400, 3000, 100000]
XSI_TYPES = ["nosuchtype", "xs:nosuch", "item", "dog", "xs:int", "xs:QName", "xs:date", "xs:hexBinary", "xs:base64Binary", "xs:boolean", "xs:duration", "xs:dateTime", "xs:gYear",
             "xs:decimal", "xs:float", "xs:NMTOKENS", "xs:anyURI", "xs:NOTATION", "xs:time", "xs:unsignedByte", "xs:anyType", "xs:anySimpleType", "xs:string", "xs:language", "xs:IDREFS"]
JUNK_TEXT = ["1E+600000000", "1E+999999999999", "-1E-600000000", "9" * 5000, "1" + "0" * 4000 + ".5", "p:", ":x", "xs:", "xml:lang", "99999999-01-01", "2020-01-01+14:00", "2020-01-01-14:01", "-2020-01-01", "2020-01-01T24:00:00", "2020-01-01T23:59:60", "P1Y-2M", "1e-400", "0" * 400, "-", "+", "-", "1_000", "0x1", "Infinity", "nan", "1e400", " 5 ", "TRUE", "true ", "-P", "P1Y2M3DT", "PT", "2020-01-01T00:00:00+15:00", "0000-01-01", "2020-02-30", "12:00:00.1234567890123", "--02-30", "-0", ".", "1.", "1e", "٣", "٣.٥",
             "", " ", "abc", "-1", "1e999", "NaN", "2020-13-45", "true1", "99999999999999999999999999", "0x10", "p:undeclared", "{", "{urn:x}y", "١٢٣", "1 2 3", "--", "P", "24:00:00", "x" * 300, "\t\n", "1.5.5", "+", "é",
             # near-valid lexical forms: one detail off a legal value of some XSD datatype
             "0001-01-01", "9999-12-31T23:59:59.999999Z", "10000-01-01", "24:00:00.1", "24:00:01", "PT0.5S", "P0.5Y", "P1W", "-P1D", "PT1M", "P1Y", "T12:00:00", "12:00",
             "2020-01-01Z", "2020-01-01T00:00:00", "2020-01-01T12:00:00+00:00:00", "2020-01-01T12:00:00z", "2020-1-1", "---15", "---32", "--12", "--13", "2020", "2020-12", "02020-01-01",
             "9223372036854775807", "9223372036854775808", "-9223372036854775809", "18446744073709551616", "\u22121", "1,5", "1 000", "True", "False", "yes", "0 ", "1\u00a0", "\u20031",
             "aGVsbG8", "aGVs bG8=", "aGVsbG8==", "aGVsbG8=\n", "=aGVsbG8", "ZZ", "abc", "0xZZ", "AbCd ", "1e5", "1E5", "1.0", "+1", "INF", "-INF", "+INF", "1d", "1f", "1L", "0b1", "1__0", "0o7",
             "ns0:x", "xs:string", "xsd:int", "{}x", "{urn:x}", "a b", "a:b:c", "xml:x", "xmlns:x", "\ud7ff", "\ufffd", "\U0001f600", "&", "<", "]]>",
             "sNaN", "-sNaN", "snan", "NaN1", "sNaN7", "-Infinity", "-NaN", "1E", "E5", "0E0", "-0.0", "00.00", "+.5", "1,5E2", "PT1,5S", "PT0:30S", "PT1 5S", "P1DT1,5S", "12:00:00,5", "2020-01-01T12:00:00,5",
             # a long legal-looking run that ends in one illegal character: backtracking bait for every pattern-checked type
             "{urn:example:orders:schema:v1:purchaseOrder items}po", "{http://example.com/" + "a/" * 20 + "b c}x", "{urn:" + "a" * 40 + "|}x", "{urn:" + "a:" * 30 + "^}x", "urn:" + "a" * 40 + " b",
             "a" * 30 + "!", "1" * 40 + "x", "P" + "1Y" * 30, "P" + "1" * 60 + "Z", "PT" + "1" * 40 + ".S", "-" * 40, "2020-01-01T00:00:00." + "9" * 40 + "x", "1 " * 40 + "x", "A" * 64 + "=!", "0" * 60 + "e", "+" + "1" * 50 + ".", "2020-01-01" + "+" * 30, "é" * 40 + "!",
             " " * 60 + "x", "x" + " " * 60, "a:" * 40, "(" * 40, "\\" * 40,
             # Clark notation around things a URL parser trips over
             "{http://[::1}Leaf", "{//]}x", "{http://[host]/a}b", "{//[}a", "{http://[::1]:x/}a", "{http://a:b:c/}d", "{http://%zz/}a", "{file:///[}a", "{urn:a-b}c", "{http://a/#b#c}d", "{\\\\host\\share}a",
             # magnitudes beyond float / int64 / the int-to-str digit limit inside otherwise legal forms
             "1" + "0" * 400 + "-01-01T00:00:00", "-" + "9" * 400 + "-12-31", "1" + "0" * 400 + "-01-01", "1" + "0" * 5000 + "-01-01T00:00:00Z", "P" + "9" * 400 + "Y", "PT" + "9" * 400 + "S", "P1Y" + "9" * 400 + "M",
             "12:00:00." + "9" * 400, "2020-01-01T12:00:00+" + "9" * 30 + ":00", "--" + "9" * 400, "1" + "0" * 4400, "-" + "1" + "0" * 4400, "1" * 4301, "0." + "0" * 4400 + "1", "1E" + "9" * 30, "1e-" + "9" * 30]
JUNK_JSON = [{"qname": "a", "type": None, "value": {"qname": "b", "type": None, "value": 1}}, {"qname": "a", "type": "{urn:x}dog", "value": [1]}, [None, None], {"": 1}, [{"": {}}], 1e308 * 10, -0.0,
             None, True, 0, -1, 1.5, 1e400, "", "abc", [], [[]], [1, [2]], {}, {"a": 1}, {"qname": "q", "type": None, "value": 1}, {"qname": "q", "text": None, "tail": None, "children": [], "attributes": {}}, [None], "9" * 40, {"value": {}},
             # generic-element shaped objects with unusable parts
             {"qname": "", "type": None, "value": 1}, {"qname": None, "type": None, "value": 1}, {"qname": 5, "type": None, "value": 1}, {"qname": "{", "type": None, "value": 1}, {"qname": "{}", "type": None, "value": 1},
             {"qname": "a", "type": "", "value": 1}, {"qname": "a", "type": 5, "value": 1}, {"qname": "a", "type": "{", "value": {}}, {"qname": "a", "type": None, "value": None}, {"qname": "a", "type": "{urn:x}dog", "value": None},
             {"qname": "a", "type": None}, {"qname": None, "text": None, "tail": None, "children": [], "attributes": {}}, {"qname": "", "text": "", "tail": "", "children": [], "attributes": {}},
             {"qname": "q", "text": 5, "tail": [], "children": {}, "attributes": []}, {"qname": "q", "text": None, "tail": None, "children": [1, None, "s"], "attributes": {"": None, "{": 1}},
             {"qname": "q", "text": None, "tail": None, "children": [{"qname": None}], "attributes": None}, {"qname": [], "value": {}}, {"qname": {}, "type": [], "value": []}, "sNaN", {"value": "sNaN"}]


def _family(text):
    """Rough lexical family of a value: junk of the same family is a near miss rather than plain garbage."""
    t = text.strip()
    if not t:
        return "other"
    if re.match(r"^-?\d+-\d+-\d+T", t) or ("T" in t and t.count(":") >= 1 and t[:1].isdigit()):
        return "datetime"
    if re.match(r"^-?\d{2,}-\d", t) or t.startswith("--"):
        return "date"
    if re.match(r"^\d+:\d", t):
        return "time"
    if re.match(r"^-?P", t):
        return "duration"
    if t.lower() in ("true", "false", "yes", "no") or t in ("0", "1"):
        return "bool"
    if re.match(r"^[+-]?[\d.,_ ]+([eE][+-]?\d*)?$", t) or t.lower().lstrip("+-") in ("inf", "nan", "infinity", "snan") or re.match(r"^[+-]?\d", t):
        return "number"
    if t.startswith("{") or re.match(r"^[\w.-]*:[\w.-]*$", t):
        return "qname"
    return "other"


JUNK_BY_FAMILY = {}
for _i, _j in enumerate(JUNK_TEXT):
    JUNK_BY_FAMILY.setdefault(_family(_j), []).append(_i)


def sweep_junk(current, salt):
    """Indices of the junk values worth trying in place of `current`: its whole lexical family plus a seeded dozen of the rest."""
    fam = _family(current or "")
    idx = list(JUNK_BY_FAMILY.get(fam, [])) if fam != "other" else []
    rest = [i for i in range(len(JUNK_TEXT)) if i not in set(idx)]
    random.Random(salt).shuffle(rest)
    return idx + rest[:12]


def junk_for(current, val):
    """Seven times in ten a junk value of the same lexical family as the value it replaces."""
    fam = JUNK_BY_FAMILY.get(_family(current or ""))
    if fam and fam is not JUNK_BY_FAMILY.get("other") and val % 10 < 7:
        return JUNK_TEXT[fam[(val // 10) % len(fam)]]
    return JUNK_TEXT[val % len(JUNK_TEXT)]


# ---------------------------------------------------------------- stores
class Store:
    xml = {}
    json = {}
    qnames = []  # (namespace, local name) of pool classes, for xsi:type faults that name an existing but unrelated class


def build_store():
    """Valid documents with a target class that need no late module."""
    from sim.pool import catalog as C

    Store.xml = {}
    Store.json = {}
    for name, (data, ck, needs) in list(C.XML.items()) + list(core.Z.gen_docs["xml"].items()):
        if ck is not None and not needs:
            Store.xml[name] = (data, ck)
    for name, (text, ck, needs) in list(C.JSON.items()) + list(core.Z.gen_docs["json"].items()):
        if ck is not None and not needs:
            Store.json[name] = (text, ck)
    seen = set()
    for key in sorted(C.CLASSES):
        cls = C.CLASSES[key]
        meta = cls.__dict__.get("Meta")
        ns = getattr(meta, "namespace", None)
        local = getattr(meta, "name", None) or cls.__name__
        if ns and (ns, local) not in seen:
            seen.add((ns, local))
            Store.qnames.append((ns, local))


# ---------------------------------------------------------------- faults
def _elements(root):
    return list(root.iter("*"))


def gen_fault(rng, decoder, data_len):
    """Draw one explicit fault descriptor."""
    if decoder.startswith("xml"):
        kinds = BYTE_FAULTS + XML_STRUCT_FAULTS
    elif decoder == "json":
        kinds = BYTE_FAULTS + JSON_STRUCT_FAULTS
    else:
        kinds = JSON_STRUCT_FAULTS
    k = rng.choice(kinds)
    f = {"k": k}
    n = max(1, data_len)
    if k in ("bitflip",):
        f.update(off=rng.randrange(n), bit=rng.randrange(8))
    elif k == "overwrite":
        f.update(off=rng.randrange(n), byte=rng.randrange(256))
    elif k in ("delete_range", "dup_range", "zero_range", "garbage_range"):
        f.update(off=rng.randrange(n), len=rng.choice([1, 2, 3, 8, 20, 64]), seed=rng.randrange(1 << 16))
    elif k == "truncate":
        f.update(off=rng.randrange(n + 1))
    elif k == "concat":
        f.update(sep=rng.choice(["", "\n", " "]))
    elif k == "random_bytes":
        f.update(len=rng.choice([0, 1, 2, 5, 16, 64, 256]), seed=rng.randrange(1 << 16), ascii=rng.random() < 0.5)
    elif k in ("pad_truncate", "pad_only"):
        f.update(size=rng.choice(BOUNDARIES), where=rng.choice(["comment", "space", "text"]), cut=rng.choice([0, 0, 1, -1, 7]))
    elif k == "insert_bytes":
        f.update(off=rng.choice([0, 0, n, rng.randrange(n + 1), rng.randrange(n + 1), rng.randrange(n + 1), rng.randrange(n + 1)]), text=rng.choice([" ", "\n", "\t\r\n ", "\x0b", "\u00a0", "\ufeff", "<", ">", "&", "&#0;", "&#xD800;", "&#xDFFF;", "&#xFFFE;", "&#x110000;", "&#55296;", "&#x1F600;", "&#x0;", "&#;", "&#x;", "&nope;", "<!--", "]]>", "<?x", "\x00", "\xff\xfe", '"', "'", "</x>", "<a>", "{", "}", "[", ",", "\\u12", "\\", "\ud800".encode("utf-8", "surrogatepass").decode("latin-1")]))
    elif k in XML_STRUCT_FAULTS or k in JSON_STRUCT_FAULTS:
        f.update(idx=rng.randrange(64), idx2=rng.randrange(64), val=rng.randrange(1 << 16))
    return f


def _rand_bytes(seed, n, ascii_only=False):
    r = random.Random(seed)
    if ascii_only:
        return bytes(r.choice(b"<>/=\"' abcxyz:&;#01[]{},-") for _ in range(n))
    return bytes(r.randrange(256) for _ in range(n))


def apply_byte_fault(data, f, other=b""):
    k = f["k"]
    if k == "bitflip":
        if not data:
            return data
        o = f["off"] % len(data)
        return data[:o] + bytes([data[o] ^ (1 << f["bit"])]) + data[o + 1 :]
    if k == "overwrite":
        if not data:
            return data
        o = f["off"] % len(data)
        return data[:o] + bytes([f["byte"]]) + data[o + 1 :]
    if k == "delete_range":
        o = f["off"] % max(1, len(data))
        return data[:o] + data[o + f["len"] :]
    if k == "dup_range":
        o = f["off"] % max(1, len(data))
        return data[: o + f["len"]] + data[o : o + f["len"]] + data[o + f["len"] :]
    if k == "zero_range":
        o = f["off"] % max(1, len(data))
        n = min(f["len"], len(data) - o)
        return data[:o] + b"\x00" * n + data[o + n :]
    if k == "garbage_range":
        o = f["off"] % max(1, len(data))
        n = min(f["len"], len(data) - o)
        return data[:o] + _rand_bytes(f["seed"], n) + data[o + n :]
    if k == "truncate":
        return data[: f["off"] % (len(data) + 1)]
    if k == "concat":
        return data + f["sep"].encode() + (other or data)
    if k == "random_bytes":
        return _rand_bytes(f["seed"], f["len"], f.get("ascii", False))
    if k in ("pad_truncate", "pad_only"):
        # grow the document with harmless padding so that it crosses / ends exactly at a block boundary of
        # whatever reads it, then (pad_truncate) cut it at that boundary: still not well-formed
        size = f["size"]
        want = size * 2 if k == "pad_truncate" else size
        i = data.rfind(b"</") if data.lstrip()[:1] == b"<" else data.rfind(b"}")
        if i <= 0:
            return data
        need = max(0, want - len(data))
        if data.lstrip()[:1] == b"<":
            pad = {"comment": b"<!--" + b"x" * max(0, need - 7) + b"-->", "space": b" " * need, "text": b" " * need}[f["where"]] if need else b""
        else:
            pad = b" " * need
        grown = data[:i] + pad + data[i:]
        if k == "pad_only":
            return grown
        return grown[: max(1, size + f["cut"])]
    if k == "insert_bytes":
        o = f["off"] % (len(data) + 1)
        return data[:o] + f["text"].encode("latin-1", "replace") + data[o:]
    return data


def xml_value_positions(els):
    """Every place of a document that carries a value: leaf elements with text, then attributes, in document order."""
    out = [(e, None) for e in els if len(e) == 0 and (e.text or "").strip()]
    for e in els:
        out.extend((e, a) for a in sorted(e.attrib) if not a.startswith("{http://www.w3.org/2001/XMLSchema-instance}"))
    return out


def xml_values(data):
    from lxml import etree

    try:
        root = etree.fromstring(data, etree.XMLParser(resolve_entities=False))
    except Exception:
        return []
    return [(e.text if a is None else e.get(a)) for e, a in xml_value_positions(_elements(root))]


def json_value_leaves(value):
    paths = _json_paths(value)
    return [p for p in paths if isinstance(_get(value, p), (str, int, float)) and not isinstance(_get(value, p), bool)]


def apply_xml_struct_fault(data, f):
    """Tree-level fault, re-stored as bytes. Returns (bytes, landed)."""
    from lxml import etree

    k = f["k"]
    if k == "dup_attr":
        i = data.find(b" ", data.find(b"<", data.find(b"?>") + 1 if data.startswith(b"<?xml") else 0) + 1)
        j = data.find(b">", 0 if not data.startswith(b"<?xml") else data.find(b"?>") + 2)
        if j < 0:
            return data, False
        cut = j - 1 if data[j - 1 : j] == b"/" else j
        return data[:cut] + b' dupattr="1" dupattr="2"' + data[cut:], True
    if k == "prolog_encoding":
        enc = ["no-such-encoding", "utf-16", "ascii", "UTF-99", "", "utf-8-sig", "idna", "rot13", "hex"][f["val"] % 9]
        body = data[data.find(b"?>") + 2 :] if data.startswith(b"<?xml") else data
        return b'<?xml version="1.0" encoding="' + enc.encode() + b'"?>' + body, True
    if k == "prolog_doctype":
        body = data[data.find(b"?>") + 2 :] if data.startswith(b"<?xml") else data
        variants = [
            b'<!DOCTYPE r [<!ENTITY a "aaaaaaaaaa"><!ENTITY b "&a;&a;&a;&a;&a;&a;&a;&a;"><!ENTITY c "&b;&b;&b;&b;&b;&b;&b;&b;"><!ENTITY d "&c;&c;&c;&c;&c;&c;&c;&c;">]>',
            b'<!DOCTYPE r SYSTEM "file:///nonexistent/x.dtd">',
            b'<!DOCTYPE r [<!ENTITY x SYSTEM "file:///etc/hostname">]>',
            b"<!DOCTYPE r [<!ELEMENT r ANY>]>",
            b"<!DOCTYPE",
        ]
        return variants[f["val"] % len(variants)] + body, True
    if k == "prolog_version":
        ver = ["2.0", "", "11.0", "1.0abc", "1.1", "1.", "1.00", " 1.0", "01.0", "1,0"][f["val"] % 10]
        body = data[data.find(b"?>") + 2 :] if data.startswith(b"<?xml") else data
        return b'<?xml version="' + ver.encode() + b'"?>' + body, True
    if k == "deep_wrap":
        # the whole document below many levels of one element (well-formed; iterative and recursive walkers differ)
        body = data[data.find(b"?>") + 2 :] if data.startswith(b"<?xml") else data
        if body.lstrip().startswith(b"<!DOCTYPE"):
            return data, False
        depth = [200, 1200, 5000, 100000][f["val"] % 4]
        tag = [b"a", b"n", b"x:a xmlns:x='urn:deep'"][f["idx"] % 3]
        close = tag.split(b" ")[0]
        if f["idx2"] % 2:
            return b"<" + tag + b">" + (b"<" + close + b">") * depth + body + (b"</" + close + b">") * (depth + 1), True
        # nested inside the root element instead: after the root's start tag
        m = re.search(rb"<[A-Za-z_][^<>]*[^/<>]>", body)
        if not m:
            return data, False
        return body[: m.end()] + (b"<" + close + b">") * depth + (b"</" + close + b">") * depth + body[m.end() :], True
    try:
        parser = etree.XMLParser(remove_blank_text=False, resolve_entities=False)
        root = etree.fromstring(data, parser)
    except Exception:
        return data, False
    els = _elements(root)
    el = els[f["idx"] % len(els)]
    el2 = els[f["idx2"] % len(els)]
    val = JUNK_TEXT[f["val"] % len(JUNK_TEXT)]
    landed = True
    try:
        if k == "el_delete":
            if el.getparent() is None:
                return data, False
            el.getparent().remove(el)
        elif k == "el_dup":
            if el.getparent() is None:
                return data, False
            el.addnext(copy.deepcopy(el))
        elif k == "el_dup_many":
            if el.getparent() is None:
                return data, False
            for _ in range([20, 60, 150][f["val"] % 3]):
                el.addnext(copy.deepcopy(el))
        elif k == "nest_self":
            depth = [4, 12, 40][f["val"] % 3]
            inner = el
            for _ in range(depth):
                sub = etree.SubElement(inner, el.tag, attrib=dict(el.attrib))
                sub.text = el.text
                inner = sub
        elif k == "insert_misc":
            # comments, processing instructions and entity references: content every XML document may carry
            kind = f["val"] % 4
            node = [etree.Comment(" c -- "[: 3 + f["val"] % 2]), etree.ProcessingInstruction("pi", "x='1'"), etree.Comment(""), etree.ProcessingInstruction("xml-stylesheet", "href='a.css'")][kind]
            node.tail = ["", "tail", " "][f["idx2"] % 3]
            if f["idx2"] % 5 == 0 and el.getparent() is not None:
                el.addprevious(node)
            else:
                el.insert(f["idx2"] % (len(el) + 1), node)
        elif k == "xinclude_junk":
            XI = "http://www.w3.org/2001/XInclude"
            attrs = [{}, {"parse": "bogus", "href": "x.xml"}, {"href": "nonexistent-file.xml"}, {"href": "", "xpointer": "xpointer(//*"}, {"href": "x.txt", "parse": "text", "encoding": "bogus"},
                     {"href": "nonexistent.xml", "parse": "text"}, {"xpointer": "element(/1)"}, {"href": "#frag"}][f["val"] % 8]
            inc = etree.Element("{%s}include" % XI, attrib=attrs, nsmap={"xi": XI})
            if f["val"] % 3 == 0:
                fb = etree.SubElement(inc, "{%s}fallback" % XI)
                fb.text = "fallback text"
            if f["idx2"] % 7 == 0:
                fb = etree.Element("{%s}fallback" % XI, nsmap={"xi": XI})  # a stray fallback
                el.insert(0, fb)
            else:
                el.insert(f["idx2"] % (len(el) + 1), inc)
        elif k == "text_long":
            el.text = ((el.text or "x") + " ") * [50, 400, 2000][f["val"] % 3]
        elif k == "attr_many":
            for i in range([10, 50, 200][f["val"] % 3]):
                el.set(f"extra{i}" if f["idx2"] % 2 else "{urn:many}a%d" % i, "v%d" % i)
        elif k == "el_retag":
            el.tag = [el2.tag, "{urn:nowhere}zz", "zz", el.tag.split("}")[-1] if isinstance(el.tag, str) else "q"][f["val"] % 4]
        elif k == "el_reorder":
            kids = list(el)
            if len(kids) < 2:
                return data, False
            el.append(kids[0])
        elif k == "el_move":
            if el is el2 or el.getparent() is None or el in el2.iterancestors() or el2 in el.iterancestors():
                return data, False
            el2.append(el)
        elif k == "value_set":
            positions = xml_value_positions(els)
            if not positions:
                return data, False
            e, attr = positions[f["idx"] % len(positions)]
            if attr is None:
                e.text = JUNK_TEXT[f["val"] % len(JUNK_TEXT)]
            else:
                e.set(attr, JUNK_TEXT[f["val"] % len(JUNK_TEXT)])
        elif k == "text_corrupt":
            leaves = [e for e in els if len(e) == 0 and (e.text or "").strip()]
            if leaves and f["idx2"] % 5:
                el = leaves[f["idx"] % len(leaves)]  # four times in five an element that carries a value
            el.text = junk_for(el.text, f["val"])
        elif k == "attr_corrupt":
            if not el.attrib:
                withattrs = [e for e in els if e.attrib]
                if not withattrs:
                    return data, False
                el = withattrs[f["idx"] % len(withattrs)]
            key = sorted(el.attrib)[f["idx2"] % len(el.attrib)]
            el.set(key, junk_for(el.get(key), f["val"]))
        elif k == "attr_delete":
            if not el.attrib:
                return data, False
            key = sorted(el.attrib)[f["idx2"] % len(el.attrib)]
            del el.attrib[key]
        elif k == "attr_add":
            el.set(["bogus", "{urn:nowhere}a", "id", "{%s}schemaLocation" % XSI][f["val"] % 4], val)
        elif k == "child_in_simple":
            if len(el):
                return data, False
            sub = etree.SubElement(el, [el.tag, "intruder", "{urn:nowhere}i"][f["val"] % 3])
            sub.text = "x"
        elif k == "xsi_type_bad":
            if root.nsmap.get("xs") != "http://www.w3.org/2001/XMLSchema":
                new_root = etree.Element(root.tag, attrib=dict(root.attrib), nsmap=dict(root.nsmap, xs="http://www.w3.org/2001/XMLSchema"))
                new_root.text = root.text
                idx = els.index(el)
                for child in list(root):
                    new_root.append(child)
                root = new_root
                el = _elements(root)[idx]
            el.set("{%s}type" % XSI, XSI_TYPES[f["val"] % len(XSI_TYPES)])
        elif k in ("xsi_type_class", "xsi_type_class_empty"):
            if not Store.qnames:
                return data, False
            ns, local = Store.qnames[f["val"] % len(Store.qnames)]
            empty = k == "xsi_type_class_empty"
            if empty and f["idx2"] % 2:
                el = root  # an unrelated existing class named on the document element itself
            new_el = etree.Element(el.tag, attrib={} if empty else dict(el.attrib), nsmap=dict(el.nsmap or {}, xtp=ns))
            new_el.text, new_el.tail = (None if empty else el.text), el.tail
            if not empty:
                for child in list(el):
                    new_el.append(child)
            new_el.set("{%s}type" % XSI, "xtp:" + local)
            if el.getparent() is None:
                root = new_el
            else:
                el.getparent().replace(el, new_el)
        elif k == "xsi_other_attr":
            el.set("{%s}%s" % (XSI, ["foo", "schemaLocation", "noNamespaceSchemaLocation", "Type"][f["val"] % 4]), val)
        elif k == "xsi_type_empty":
            el.set("{%s}type" % XSI, ["", " ", ":"][f["val"] % 3])
        elif k == "xsi_type_unbound":
            el.set("{%s}type" % XSI, ["zzz:dog", "zzz:", ":dog", "a:b:c"][f["val"] % 4])
        elif k == "xsi_nil_true":
            if f["idx2"] % 3 == 0:
                el = root  # the document element itself, every third time
            el.set("{%s}nil" % XSI, ["true", "1", "TRUE", "yes"][f["val"] % 4])
        elif k == "xsi_nil_false":
            el.set("{%s}nil" % XSI, ["false", "0", ""][f["val"] % 3])
        elif k == "undeclared_prefix":
            out = etree.tostring(root)
            tag = el.tag.split("}")[-1] if isinstance(el.tag, str) else "x"
            needle = ("<" + (el.prefix + ":" if el.prefix else "") + tag).encode()
            i = out.find(needle)
            if i < 0:
                return data, False
            return out[: i + 1] + b"undecl:" + out[i + 1 :], True
        elif k == "wrong_root":
            root.tag = ["{urn:nowhere}other", "other", el2.tag][f["val"] % 3]
        elif k == "ns_change":
            if not isinstance(el.tag, str):
                return data, False
            local = el.tag.split("}")[-1]
            el.tag = ["{urn:changed}" + local, local][f["val"] % 2]
        else:
            return data, False
    except Exception:
        return data, False
    try:
        return etree.tostring(root), landed
    except Exception:
        return data, False


def _json_paths(value, path=()):
    out = [path]
    if isinstance(value, dict):
        for k, v in value.items():
            out.extend(_json_paths(v, path + (k,)))
    elif isinstance(value, list):
        for i, v in enumerate(value):
            out.extend(_json_paths(v, path + (i,)))
    return out


def _get(value, path):
    for p in path:
        value = value[p]
    return value


def _set(value, path, new):
    if not path:
        return new
    parent = _get(value, path[:-1])
    parent[path[-1]] = new
    return value


def _json_keys(value):
    """Every member name of the document, sorted (iterative: documents may be nested deeply)."""
    out = set()
    stack = [value]
    while stack:
        v = stack.pop()
        if isinstance(v, dict):
            out.update(k for k in v if isinstance(k, str))
            stack.extend(v.values())
        elif isinstance(v, list):
            stack.extend(v)
    return sorted(out)


def json_deep_parts(f, keys):
    """Opening and closing text of one nesting level, and the number of levels."""
    mode = f["idx2"] % 3
    key = keys[f["idx"] % len(keys)] if mode == 2 and keys else "value"
    depth = DEEP_LEVELS[f["val"] % len(DEEP_LEVELS)]
    return ("[", "]", depth) if mode == 0 else ("{%s:" % json.dumps(key), "}", depth)


def apply_json_struct_fault(value, f):
    try:
        value = copy.deepcopy(value)
        paths = _json_paths(value)
    except RecursionError:  # an earlier fault nested the document too deeply for the harness to edit it again
        return value, False
    if f["k"] == "json_deep":
        # the whole document sits below many levels of arrays or objects (decoded input: levels capped at 3000)
        op, _, depth = json_deep_parts(f, _json_keys(value))
        for _ in range(min(depth, 3000)):
            value = [value] if op == "[" else {json.loads(op[1:-1]): value}
        return value, True
    path = paths[f["idx"] % len(paths)]
    k = f["k"]
    junk = copy.deepcopy(JUNK_JSON[f["val"] % len(JUNK_JSON)])
    try:
        if k == "value_junk":
            return _set(value, path, junk), True
        if k == "list_wrap":
            return _set(value, path, [_get(value, path)]), True
        if k == "value_set":
            leaves = json_value_leaves(value)
            if not leaves:
                return value, False
            if f.get("junk") == "json":
                return _set(value, leaves[f["idx"] % len(leaves)], copy.deepcopy(JUNK_JSON[f["val"] % len(JUNK_JSON)])), True
            return _set(value, leaves[f["idx"] % len(leaves)], JUNK_TEXT[f["val"] % len(JUNK_TEXT)]), True
        if k == "value_text":
            # a string leaf replaced by one of the lexical junk values (typed value corruption, JSON side)
            leaves = [p for p in paths if isinstance(_get(value, p), (str, int, float)) and not isinstance(_get(value, p), bool)]
            if not leaves:
                return value, False
            leaf = leaves[f["idx"] % len(leaves)]
            return _set(value, leaf, junk_for(str(_get(value, leaf)), f["val"])), True
        if k == "list_grow":
            cur = _get(value, path)
            if isinstance(cur, list) and cur:
                return _set(value, path, cur * [10, 40, 120][f["val"] % 3]), True
            return _set(value, path, [cur] * [10, 40, 120][f["val"] % 3]), True
        if k == "nest_value":
            cur = _get(value, path)
            keys = _json_keys(value)
            mode = f["idx2"] % 3
            key = keys[f["val"] % len(keys)] if mode == 2 and keys else "value"
            for _ in range([3, 10, 30, 400, 3000][f["val"] % 5]):
                cur = [cur] if mode == 0 else {key: cur}
            return _set(value, path, cur), True
        if k == "key_hoist":
            # the members of a nested object move up into its parent (a wrapper or child level goes missing)
            dpaths = [p for p in paths if p and isinstance(_get(value, p), dict) and isinstance(_get(value, p[:-1]), dict)]
            if not dpaths:
                return value, False
            p = dpaths[f["idx"] % len(dpaths)]
            parent = _get(value, p[:-1])
            child = parent.pop(p[-1])
            parent.update(child)
            return value, True
        if k == "list_unwrap":
            cur = _get(value, path)
            if isinstance(cur, list) and cur:
                return _set(value, path, cur[0]), True
            return value, False
        if k in ("key_delete", "key_rename", "key_add"):
            dpaths = [p for p in paths if isinstance(_get(value, p), dict)]
            if not dpaths:
                return value, False
            d = _get(value, dpaths[f["idx"] % len(dpaths)])
            if k == "key_add":
                d[["bogus", "qname", "value", "type", "", 7, None, 1.5][f["val"] % 8]] = junk  # a loader may hand over non-string keys
                return value, True
            if not d:
                return value, False
            key = list(d)[f["idx2"] % len(d)]
            if k == "key_delete":
                del d[key]
            else:
                keys = _json_keys(value)
                names = ["renamed", key.upper(), key + "_", ""] + keys
                d[names[f["val"] % len(names)]] = d.pop(key)
            return value, True
    except Exception:
        return value, False
    return value, False


# ---------------------------------------------------------------- case generation
def gen_case(seed):
    rng = random.Random(seed)
    decoder = rng.choice(["xml-lxml", "xml-native", "xml-lxml", "xml-native", "xml-lxml", "xml-native", "json", "json", "dict", "dict", "xml-tree-lxml", "xml-tree-native", "xml-src-lxml", "xml-src-native", "xml-path-lxml", "xml-path-native", "xml-str-lxml", "xml-str-native"])
    if decoder.startswith("xml"):
        name = rng.choice(sorted(Store.xml))
        n = len(Store.xml[name][0])
    else:
        name = rng.choice(sorted(Store.json))
        n = len(Store.json[name][0])
    nf = rng.choice([1, 1, 1, 2, 3])
    faults = [gen_fault(rng, decoder, n) for _ in range(nf)]
    if rng.random() < 0.04:
        faults = []  # fault-free delivery configuration
    chunks = None
    if decoder != "dict" and rng.random() < 0.6:
        chunks = [rng.choice([1, 1, 2, 3, 4, 7, 16, 61, 64, 512]) for _ in range(rng.choice([1, 2, 3, 5]))]
    cfg = rng.choice(["default", "default", "default", "lenient", "lenient", "strictattr", "strictattr", "strictconv", "strictconv", "xinclude", "loaddtd", "factory", "factory"])
    case = {"seed": seed, "decoder": decoder, "doc": name, "faults": faults, "chunks": chunks, "cfg": cfg}
    if rng.random() < 0.08:
        case["noclass"] = True  # the target class is located from the document
    return case


def other_doc(case):
    names = sorted(Store.xml if case["decoder"].startswith("xml") else Store.json)
    i = (names.index(case["doc"]) + 1) % len(names)
    d = (Store.xml if case["decoder"].startswith("xml") else Store.json)[names[i]][0]
    return d if isinstance(d, bytes) else d.encode()


def materialize(case):
    """Apply the explicit fault list to the stored document. Returns (payload, landed_count, first_change_offset)."""
    dec = case["decoder"]
    if dec.startswith("xml"):
        data, ck = Store.xml[case["doc"]]
    else:
        text, ck = Store.json[case["doc"]]
        data = text.encode()
    landed = 0
    if dec == "dict":
        value = json.loads(data)
        for f in case["faults"]:
            value, ok = apply_json_struct_fault(value, f)
            landed += ok
        return value, ck, landed
    original = data
    for f in case["faults"]:
        if f["k"] in BYTE_FAULTS:
            new = apply_byte_fault(data, f, other_doc(case))
            ok = new != data
            data = new
        elif dec.startswith("xml"):
            data, ok = apply_xml_struct_fault(data, f)
        elif f["k"] == "json_deep":
            try:
                keys = _json_keys(json.loads(data))
            except Exception:
                keys = []
            op, cl, depth = json_deep_parts(f, keys)
            data = op.encode() * depth + data + cl.encode() * depth
            ok = True
        else:
            try:
                value = json.loads(data)
            except Exception:
                ok = False
            else:
                value, ok = apply_json_struct_fault(value, f)
                if ok:
                    try:
                        data = json.dumps(value).encode()
                    except Exception:
                        ok = False
        landed += bool(ok)
    return data, ck, landed if data != original else 0


# ---------------------------------------------------------------- step budget
class BudgetExceeded(BaseException):
    pass


class StepMeter:
    """Counts function entries and jumps in xsdata code; raises once the budget is exhausted."""

    def __init__(self, codes):
        self.codes = codes
        self.n = 0
        self.limit = None
        self.installed = False

    def install(self):
        meter = self

        def bump(*a):
            meter.n += 1
            if meter.limit is not None and meter.n > meter.limit:
                # raised again at every further step until the meter is stopped: the library may swallow one
                # (an `except` around a candidate binding, a RecursionError raised while this one unwinds)
                raise BudgetExceeded(f"step budget exhausted after {meter.n} steps")

        mon.use_tool_id(TOOL, "xsv-steps")
        ev = mon.events.PY_START | mon.events.JUMP
        mon.register_callback(TOOL, mon.events.PY_START, bump)
        mon.register_callback(TOOL, mon.events.JUMP, bump)
        for code in self.codes:
            mon.set_local_events(TOOL, code, ev)
        self.installed = True

    def start(self, limit):
        self.n = 0
        self.limit = limit

    def stop(self):
        self.limit = None
        return self.n


# ---------------------------------------------------------------- execution
def wellformed_judge(data):
    """Independent of xsdata: expat with namespace processing, fed the delivered bytes."""
    from xml.parsers import expat

    p = expat.ParserCreate(namespace_separator="}")
    try:
        p.Parse(data, True)
        return True
    except expat.ExpatError:
        return False
    except (LookupError, ValueError):
        return False


def innermost_xsdata_frame(tb):
    last = "?"
    for fs in traceback.extract_tb(tb):
        fn = fs.filename
        i = fn.rfind("/xsdata/")
        if i >= 0 and "/verif/" not in fn:
            last = f"{fn[i + 8:]}:{fs.name}"
    return last


_documented = []


def documented_classes():
    """The library's documented parsing / conversion / context errors (subclasses count)."""
    if not _documented:
        from xsdata import exceptions as X

        _documented.extend(getattr(X, n) for n in DOCUMENTED if hasattr(X, n))
    return tuple(_documented)


_DECL = re.compile(rb"^<\?xml[ \t\r\n]+version[ \t\r\n]*=[ \t\r\n]*(\"([^\"]*)\"|'([^']*)')")


def declaration_wellformed(payload):
    """XML 1.0 (5th ed.) production 24-26 for a document in an ASCII-compatible encoding: a judge that does not
    ask expat. True when there is no declaration to judge."""
    if not isinstance(payload, bytes) or not payload.startswith(b"<?xml") or payload[5:6] not in (b" ", b"\t", b"\r", b"\n"):
        return True
    m = _DECL.match(payload)
    if not m:
        return True  # left to expat
    version = m.group(2) if m.group(2) is not None else m.group(3)
    return re.fullmatch(rb"1\.[0-9]+", version) is not None


PATH_SUFFIXES = [".xml", "", ".gz", ".xml.gz", ".zip", ".bz2", ".xz", ".json", ".XML", ".xml~", ".dtd", ".xsd", ".html", ".txt", ".bak"]
_scratch = {}


def stored_file(payload, case):
    """Write the faulted document to this process's scratch file (outside /repo and /verif) under a seeded suffix."""
    import pathlib
    import tempfile
    import zlib

    if "dir" not in _scratch:
        base = "/dev/shm" if os.path.isdir("/dev/shm") else None
        _scratch["dir"] = tempfile.mkdtemp(prefix="xsv-c15-", dir=base)
        import atexit
        import shutil

        atexit.register(shutil.rmtree, _scratch["dir"], True)
    suffix = PATH_SUFFIXES[zlib.crc32(json.dumps(case, sort_keys=True, default=str).encode()) % len(PATH_SUFFIXES)]
    old = _scratch.get("file")
    if old and os.path.exists(old):
        os.remove(old)
    path = os.path.join(_scratch["dir"], "doc" + suffix)
    with open(path, "wb") as f:
        f.write(payload)
    _scratch["file"] = path
    return pathlib.Path(path)


def build_tree(payload, dec, sub=False):
    """sub=True: the document is an element inside a larger tree (it has siblings and a tail of its own)."""
    try:
        if sub:
            body = payload[payload.find(b"?>") + 2 :] if payload.startswith(b"<?xml") else payload
            if body.lstrip().startswith(b"<!DOCTYPE"):
                sub = False
            else:
                payload = b"<outer-list>" + body + b"tail text of the element<sibling/>more</outer-list>"
        if dec.endswith("lxml"):
            from lxml import etree

            root = etree.fromstring(payload, etree.XMLParser(resolve_entities=False, remove_comments=False, remove_pis=False, huge_tree=True))
        else:
            import xml.etree.ElementTree as ET

            root = ET.fromstring(payload, parser=ET.XMLParser(target=ET.TreeBuilder(insert_comments=True, insert_pis=True)))
        if sub:
            first = next((child for child in root if isinstance(child.tag, str)), None)
            return first if first is not None and first.tag != "sibling" else None
        return root
    except RecursionError:
        raise
    except Exception:
        return None


def make_decoder(case, context):
    from sim import ops as O
    from xsdata.formats.dataclass import parsers

    cfg = O.parser_config(case["cfg"])
    dec = case["decoder"]
    if dec.startswith("xml-tree-"):
        return parsers.TreeParser(config=cfg, context=context, handler=O._handlers()[dec.split("-")[2]])
    if dec.startswith(("xml-src-", "xml-path-", "xml-str-")):
        return parsers.XmlParser(config=cfg, context=context, handler=O._handlers()[dec.split("-")[2]])
    if dec == "xml-lxml":
        return parsers.XmlParser(config=cfg, context=context, handler=O._handlers()["lxml"])
    if dec == "xml-native":
        return parsers.XmlParser(config=cfg, context=context, handler=O._handlers()["native"])
    if dec == "json":
        return parsers.JsonParser(config=cfg, context=context)
    return parsers.DictDecoder(config=cfg, context=context)


def case_key(case):
    return (case["decoder"], case["doc"], case["cfg"] + ("/noclass" if case.get("noclass") else ""))


def is_instance_of(result, clazz):
    import dataclasses
    from typing import get_args, get_origin

    from xsdata.formats.dataclass.models.generics import DerivedElement

    if clazz is None:  # located by the library: any binding model instance (or a list of them)
        if isinstance(result, list):
            return bool(result) and all(is_instance_of(r, None) for r in result)
        return dataclasses.is_dataclass(result) and not isinstance(result, type)

    if get_origin(clazz) is list:
        inner = get_args(clazz)[0]
        return isinstance(result, list) and all(is_instance_of(r, inner) for r in result)
    # a derived-element document ({"qname", "type", "value"}) decodes to the generic wrapper around the
    # instance; the document may nest that shape, and the result then nests the wrapper the same way
    for _ in range(64):
        if not isinstance(result, DerivedElement):
            break
        result = result.value
    return isinstance(result, clazz)


def _decoded_size(value):
    """Approximate text size of a decoded JSON value (iterative: documents may be nested deeply)."""
    n = 0
    stack = [value]
    while stack:
        v = stack.pop()
        if isinstance(v, dict):
            n += 2
            for k, x in v.items():
                n += len(str(k)) + 4
                stack.append(x)
        elif isinstance(v, list):
            n += 2 + len(v)
            stack.extend(v)
        else:
            n += len(str(v)) + 2
    return n


def subject_class(case, ck, payload, context):
    """The class a time verdict is about: the requested one, or the one the library locates for a
    class-less call (asked again, outside the measurement)."""
    if not case.get("noclass"):
        return str(ck)
    try:
        if isinstance(payload, (bytes, str)) and not case["decoder"].startswith("xml"):
            payload = json.loads(payload)
        if isinstance(payload, (dict, list)):
            sample = payload[0] if isinstance(payload, list) and payload else payload
            found = context.find_type_by_fields(set(sample.keys())) if isinstance(sample, dict) else None
        else:
            m = re.search(rb"<([A-Za-z_][\w.-]*:)?([A-Za-z_][\w.-]*)", payload[payload.find(b"?>") + 2 :] if payload.startswith(b"<?xml") else payload)
            found = None
            if m:
                cands = [c for q in list(context.xsi_cache) if q.endswith("}" + m.group(2).decode()) or q == m.group(2).decode() for c in context.xsi_cache[q]]
                found = cands[0] if len(cands) == 1 else None
        if found is not None:
            mod = found.__module__.rsplit(".", 1)[-1]
            return f"{mod}.{found.__qualname__}"
    except BaseException:
        pass
    return "noclass"


def run_case(case, context, meter, base_steps):
    """Execute one case; returns an outcome record."""
    from sim import ops as O
    import warnings

    payload, ck, landed = materialize(case)
    clazz = None if case.get("noclass") else O._resolve_clazz(ck)
    dec = case["decoder"]
    if dec.startswith("xml-tree-"):
        from xsdata.formats.dataclass.models.generics import AnyElement

        clazz = AnyElement  # the generic tree model: any well-formed document fits
    tool = make_decoder(case, context)
    key = case_key(case)
    valid_len = len(Store.xml[case["doc"]][0]) if dec.startswith("xml") else len(Store.json[case["doc"]][0])
    got_len = len(payload) if isinstance(payload, (bytes, str)) else _decoded_size(payload)
    growth = max(1.0, got_len / max(1, valid_len))
    linear = base_steps.get(key, 2000) * growth
    # 20x the size-scaled cost of the valid document, but beyond two million steps never more than 4x: inputs made
    # thousands of times larger must not buy a super-linear algorithm minutes of budget
    budget = min(int(20 * linear) + 20000, max(2_000_000, int(4 * linear)))
    out = {"landed": landed, "budget": budget, "growth": growth}
    reader = None
    cpu0 = time.process_time()
    meter.start(budget)
    try:
        with warnings.catch_warnings():
            warnings.simplefilter("ignore")
            if dec == "dict":
                result = tool.decode(payload, clazz)
            elif dec.startswith("xml-str-"):
                # the caller holds the document as text (every byte string is some text: latin-1 maps bytes to code points 1:1,
                # UTF-8 text stays itself when it decodes) and leaves the encoding to the library
                try:
                    text = payload.decode("utf-8")
                except UnicodeDecodeError:
                    text = payload.decode("latin-1")
                result = tool.from_string(text, clazz)
            elif dec.startswith("xml-path-"):
                # the document is a file the library opens itself; its name says nothing about its content
                result = tool.from_path(stored_file(payload, case), clazz)
            elif dec.startswith("xml-src-"):
                # the caller hands over an already built tree (comments, processing instructions and unexpanded
                # entity references kept); bytes no tree can be built from are not a case for this decoder
                tree = build_tree(payload, dec, sub=bool(case.get("seed", 0) % 2))
                if tree is None:
                    meter.stop()
                    out.update(outcome="not_a_tree", steps=0, cpu=0.0, consumed=None)
                    return out
                result = tool.parse(tree, clazz)
            else:
                reader = SimReader(payload, chunks=case.get("chunks"))
                result = tool.parse(reader, clazz)
        steps = meter.stop()
        if is_instance_of(result, clazz):
            out["outcome"] = "instance"
        else:
            from xsdata.formats.dataclass.models.generics import DerivedElement

            shape = type(result).__qualname__
            if isinstance(result, DerivedElement):
                shape = f"DerivedElement[{type(result.value).__qualname__}]"
            out["outcome"] = "wrong_type"
            out["detail"] = f"returned {shape} instead of an instance of {getattr(clazz, '__qualname__', clazz)}"
            out["sig"] = ["wrong_type", dec, shape]
    except BudgetExceeded as e:
        steps = meter.stop()
        out["outcome"] = "budget"
        out["detail"] = str(e)
        out["sig"] = ["time", subject_class(case, ck, payload, context), dec, "budget"]
    except MemoryError as e:
        steps = meter.stop()
        out["outcome"] = "leak"
        out["exc"] = "builtins.MemoryError"
        out["frame"] = innermost_xsdata_frame(e.__traceback__)
        out["sig"] = ["leak", dec, "builtins.MemoryError", out["frame"]]
        out["detail"] = "allocation failed under the address-space limit of the simulated process"
    except RecursionError as e:
        steps = meter.stop()
        out["outcome"] = "leak"
        out["exc"] = "RecursionError"
        out["frame"] = innermost_xsdata_frame(e.__traceback__)
        out["sig"] = ["leak", dec, "RecursionError", out["frame"]]
        out["detail"] = str(e)[:200]
    except Exception as e:
        steps = meter.stop()
        name = type(e).__name__
        mod = type(e).__module__
        if isinstance(e, documented_classes()):
            base = next(c.__name__ for c in documented_classes() if isinstance(e, c))
            out["outcome"] = "documented:" + base
            out["frame"] = innermost_xsdata_frame(e.__traceback__)
        else:
            out["outcome"] = "leak"
            out["exc"] = f"{mod}.{name}"
            out["frame"] = innermost_xsdata_frame(e.__traceback__)
            out["sig"] = ["leak", dec, f"{mod}.{name}", out["frame"]]
            out["detail"] = str(e)[:300]
    out["steps"] = steps
    out["cpu"] = time.process_time() - cpu0
    if out["cpu"] > 1.0:
        out["subject"] = subject_class(case, ck, payload, context)
    out["consumed"] = reader.pos if reader is not None else None
    if dec in ("xml-native", "xml-tree-native") and out["outcome"] == "instance" and not declaration_wellformed(payload):
        out["outcome"] = "accepted_malformed"
        out["sig"] = ["accepted_malformed_declaration", dec]
        out["detail"] = "the XML declaration does not match the grammar (VersionNum ::= '1.' [0-9]+) but the native handler returned an instance"
    elif dec in ("xml-native", "xml-tree-native") and out["outcome"] == "instance":
        if not wellformed_judge(payload):
            out["outcome"] = "accepted_malformed"
            out["sig"] = ["accepted_malformed", dec]
            out["detail"] = "expat rejects the delivered bytes but the native handler returned an instance"
    if dec.startswith("xml"):
        out["wf"] = wellformed_judge(payload) if isinstance(payload, bytes) else None
    return out


def calibrate_key(key, context, meter, base, dropped, base_cpu=None):
    """Steps of the fault-free parse for (decoder, doc, cfg); a document that does not yield an instance is dropped."""
    dec, name, cfg = key
    case = {"decoder": dec, "doc": name, "faults": [], "chunks": None, "cfg": cfg.split("/")[0]}
    if cfg.endswith("/noclass"):
        case["noclass"] = True
    out = run_case(case, context, meter, {key: 10**7})
    if out["outcome"] == "instance":
        base[key] = out["steps"]
        if base_cpu is not None:
            # second, warm execution: the first one pays for metadata building
            again = run_case(case, context, meter, {key: 10**7})
            base_cpu[key] = min(out["cpu"], again["cpu"])
    else:
        dropped[key] = out["outcome"]
        if "sig" in out and out["outcome"] in ("leak", "wrong_type", "budget", "accepted_malformed"):
            # the fault-free document itself ends in something the property forbids
            return {"case": case, "out": {k: v for k, v in out.items() if k != "wf"}, "sig": out["sig"]}
    return None


_codes = {}


def runtime_codes():
    if "c" not in _codes:
        from sim import sched as S

        _codes["c"] = S.xsdata_code_objects()
    return _codes["c"]


def run_batch_cases(cases, emit):
    """Executed in a grandchild: runs the cases in order, emitting a heartbeat per case and a summary at the end."""
    from xsdata.formats.dataclass.context import XmlContext

    core.child_init()
    sys.setrecursionlimit(3000)
    try:
        import resource

        resource.setrlimit(resource.RLIMIT_AS, (6 << 30, 6 << 30))  # failing allocations surface as MemoryError, not as a dead machine
    except Exception:
        pass
    context = XmlContext()
    meter = StepMeter(runtime_codes())
    meter.install()
    base, dropped = {}, {}
    base_cpu_table = {}
    summary = {"max_cpu": 0.0, "cases": 0, "outcomes": {}, "by_fault": {}, "fired": {}, "viol": [], "max_ratio": 0.0, "nontrivial": set(), "skipped": 0, "dropped": 0, "steps": 0, "wf_rejects": 0, "native_rejected_malformed": 0}
    for i, case in enumerate(cases):
        key = case_key(case)
        if key not in base and key not in dropped:
            v0 = calibrate_key(key, context, meter, base, dropped, base_cpu_table)
            if v0 is not None:
                summary["viol"].append(v0)
        if key not in base:
            summary["skipped"] += 1
            continue
        emit(("hb", i))
        out = run_case(case, context, meter, base)
        if out["outcome"] == "not_a_tree":
            summary["skipped"] += 1
            continue
        summary["cases"] += 1
        summary["steps"] += out["steps"]
        oc = out["outcome"]
        okey = f"{case['decoder']}|{oc}"
        summary["outcomes"][okey] = summary["outcomes"].get(okey, 0) + 1
        for f in case["faults"]:
            fk = f["k"]
            summary["by_fault"][fk] = summary["by_fault"].get(fk, 0) + 1
        if out["landed"]:
            for f in case["faults"]:
                summary["fired"][f["k"]] = summary["fired"].get(f["k"], 0) + 1
        ratio = out["steps"] / max(1, base[key]) / out.get("growth", 1.0)
        if oc != "budget" and ratio > summary["max_ratio"]:
            summary["max_ratio"] = ratio
        if out["landed"] and oc != "instance":
            summary["nontrivial"].add(core.digest([case_key(case), case["faults"]]))
        if out.get("wf") is False:
            summary["wf_rejects"] += 1
            if case["decoder"] in ("xml-native", "xml-tree-native") and oc != "accepted_malformed":
                summary["native_rejected_malformed"] += 1
        base_cpu = base_cpu_table.get(key, 0.001)
        if "sig" not in out and out["cpu"] > 1.0 and out["cpu"] > 300 * max(base_cpu, 0.0005) * out.get("growth", 1.0):
            out["sig"] = ["time", out.get("subject") or "noclass", case["decoder"], "slow"]
            out["detail"] = f"{out['cpu']:.2f}s of CPU for a {out.get('growth', 1.0):.1f}x sized variant of a document that takes {base_cpu * 1000:.2f}ms"
            out["outcome"] = "slow"
        if out["cpu"] > summary["max_cpu"]:
            summary["max_cpu"] = out["cpu"]
        if "sig" in out:
            summary["viol"].append({"case": case, "out": {k: v for k, v in out.items() if k != "wf"}, "sig": out["sig"]})
    summary["nontrivial"] = sorted(summary["nontrivial"])
    summary["dropped"] = sorted("|".join(k) + "=" + v for k, v in dropped.items())
    emit(("done", summary))
