"""Minimal click-compatible command line layer (harness stub; click is not installable offline).

Implements what xsdata.cli and xsdata.utils.click use: groups, commands, arguments, options
(value options, `--flag/--no-flag` booleans, short names, explicit destination names, types with
`convert`), Choice, Path, ParamType, echo/style and a `main(args, standalone_mode=False)` entry.
"""
import sys

__version__ = "0-stub"


class ClickException(Exception):
    exit_code = 1

    def __init__(self, message):
        super().__init__(message)
        self.message = message

    def format_message(self):
        return self.message


class UsageError(ClickException):
    exit_code = 2


class BadParameter(UsageError):
    pass


class Abort(RuntimeError):
    pass


class ParamType:
    name = "text"

    def convert(self, value, param, ctx):
        return value

    def fail(self, message, param=None, ctx=None):
        raise BadParameter(message)

    def __call__(self, value, param=None, ctx=None):
        return self.convert(value, param, ctx)


class Choice(ParamType):
    name = "choice"

    def __init__(self, choices, case_sensitive=True):
        self.choices = list(choices)

    def convert(self, value, param, ctx):
        if value in self.choices:
            return value
        self.fail(f"{value!r} is not one of {self.choices}", param, ctx)


class Path(ParamType):
    name = "path"

    def __init__(self, *a, **kw):
        pass


class _FuncType(ParamType):
    def __init__(self, func):
        self.func = func
        self.name = getattr(func, "__name__", "value")

    def convert(self, value, param, ctx):
        try:
            return self.func(value)
        except ValueError:
            self.fail(f"{value!r} is not a valid {self.name}", param, ctx)


def _as_type(tp):
    if tp is None or tp is str:
        return ParamType()
    if isinstance(tp, ParamType):
        return tp
    if callable(tp):
        return _FuncType(tp)
    return ParamType()


class Parameter:
    def __init__(self, names, type=None, default=None, required=False, help=None, is_flag=False, **kw):
        self.decls = list(names)
        self.type = _as_type(type)
        self.default = default
        self.required = required
        self.help = help
        self.is_flag = is_flag
        self.name = None

    def convert(self, value, ctx):
        return self.type.convert(value, self, ctx)


class Argument(Parameter):
    def __init__(self, names, **kw):
        super().__init__(names, **kw)
        self.name = names[0].replace("-", "_").lower()


class Option(Parameter):
    def __init__(self, names, **kw):
        super().__init__(names, **kw)
        self.on = {}
        self.off = {}
        explicit = None
        longs = []
        for decl in names:
            if not decl.startswith("-"):
                explicit = decl
                continue
            if "/" in decl:
                a, b = decl.split("/", 1)
                self.on[a.strip()] = True
                self.off[b.strip()] = False
                self.is_flag = True
                longs.append(a.strip())
            else:
                self.on[decl] = True
                longs.append(decl)
        if explicit:
            self.name = explicit
        else:
            best = sorted(longs, key=lambda s: (-len(s.lstrip("-")) if s.startswith("--") else 0))
            pick = next((s for s in longs if s.startswith("--")), longs[0])
            self.name = pick.lstrip("-").replace("-", "_").lower()


class Context:
    def __init__(self, command, parent=None, info_name=None):
        self.command = command
        self.parent = parent
        self.info_name = info_name
        self.params = {}
        self._close = []
        self.obj = None

    def call_on_close(self, f):
        self._close.append(f)
        return f

    def close(self):
        for f in reversed(self._close):
            f()
        self._close = []


_pass_ctx_marker = "__click_pass_context__"


class Command:
    def __init__(self, name, callback, params=None, help=None):
        self.name = name
        self.callback = callback
        self.params = params or []
        self.help = help

    def parse_args(self, ctx, args):
        opts = {}
        for p in self.params:
            if isinstance(p, Option):
                for k in list(p.on) + list(p.off):
                    opts[k] = p
        values = {}
        positionals = []
        i = 0
        args = list(args)
        while i < len(args):
            a = args[i]
            if a == "--":
                positionals.extend(args[i + 1 :])
                break
            if a.startswith("--") and "=" in a:
                key, val = a.split("=", 1)
                args[i : i + 1] = [key, val]
                continue
            if a.startswith("-") and a != "-" and a in opts:
                p = opts[a]
                if p.is_flag:
                    values[p.name] = a in p.on
                    i += 1
                else:
                    if i + 1 >= len(args):
                        raise UsageError(f"Option {a} requires an argument.")
                    values[p.name] = p.convert(args[i + 1], ctx)
                    i += 2
                continue
            if a.startswith("-") and a != "-" and not a.lstrip("-").replace(".", "").isdigit():
                raise UsageError(f"No such option: {a}")
            positionals.append(a)
            i += 1
        argspecs = [p for p in self.params if isinstance(p, Argument)]
        for spec in argspecs:
            if positionals:
                values[spec.name] = spec.convert(positionals.pop(0), ctx)
            elif spec.required and spec.default is None:
                raise UsageError(f"Missing argument '{spec.name.upper()}'.")
            else:
                values[spec.name] = spec.default
        for p in self.params:
            if isinstance(p, Option) and p.name not in values:
                values[p.name] = p.default
        ctx.params = values
        return positionals

    def invoke(self, ctx):
        kwargs = dict(ctx.params)
        if getattr(self.callback, _pass_ctx_marker, False):
            return self.callback(ctx, **kwargs)
        return self.callback(**kwargs)

    def main(self, args=None, prog_name=None, standalone_mode=True, **extra):
        args = list(sys.argv[1:] if args is None else args)
        ctx = Context(self, info_name=prog_name or self.name)
        try:
            try:
                rest = self.parse_args(ctx, args)
                if rest and not isinstance(self, Group):
                    raise UsageError(f"Got unexpected extra arguments ({' '.join(rest)})")
                return self._run(ctx, rest)
            finally:
                ctx.close()
        except ClickException as e:
            if not standalone_mode:
                raise
            echo(f"Error: {e.format_message()}", err=True)
            sys.exit(e.exit_code)

    def _run(self, ctx, rest):
        return self.invoke(ctx)

    def __call__(self, *args, **kwargs):
        return self.main(*args, **kwargs)


class Group(Command):
    def __init__(self, name, callback, params=None, help=None):
        super().__init__(name, callback, params, help)
        self.commands = {}

    def parse_args(self, ctx, args):
        # group options come before the sub-command name
        own = []
        args = list(args)
        while args and args[0].startswith("-"):
            own.append(args.pop(0))
        super().parse_args(ctx, own)
        return args

    def command(self, name=None, **kw):
        def decorator(f):
            cmd = _make_command(f, name, Command)
            self.commands[cmd.name] = cmd
            return cmd

        return decorator

    def add_command(self, cmd, name=None):
        self.commands[name or cmd.name] = cmd

    def _run(self, ctx, rest):
        if not rest:
            raise UsageError("Missing command.")
        name = rest[0]
        if name not in self.commands:
            raise UsageError(f"No such command '{name}'.")
        self.invoke(ctx)
        cmd = self.commands[name]
        sub = Context(cmd, parent=ctx, info_name=name)
        try:
            extra = cmd.parse_args(sub, rest[1:])
            if extra:
                raise UsageError(f"Got unexpected extra arguments ({' '.join(extra)})")
            return cmd.invoke(sub)
        finally:
            sub.close()


def _make_command(f, name, cls):
    params = list(reversed(getattr(f, "__click_params__", [])))
    cmd = cls(name or f.__name__.replace("_", "-"), f, params, help=f.__doc__)
    return cmd


def command(name=None, **kw):
    def decorator(f):
        return _make_command(f, name, Command)

    return decorator


def group(name=None, **kw):
    def decorator(f):
        return _make_command(f, name, Group)

    return decorator


def _add_param(f, param):
    if isinstance(f, Command):
        f.params.append(param)
    else:
        if not hasattr(f, "__click_params__"):
            f.__click_params__ = []
        f.__click_params__.append(param)


def option(*names, **kw):
    def decorator(f):
        _add_param(f, Option(names, **kw))
        return f

    return decorator


def argument(*names, **kw):
    def decorator(f):
        _add_param(f, Argument(names, **kw))
        return f

    return decorator


def pass_context(f):
    setattr(f, _pass_ctx_marker, True)
    return f


def version_option(version=None, *names, **kw):
    def decorator(f):
        return f

    return decorator


def echo(message=None, file=None, nl=True, err=False, color=None):
    stream = file or (sys.stderr if err else sys.stdout)
    stream.write(("" if message is None else str(message)) + ("\n" if nl else ""))


def style(text, **kw):
    return text


def secho(message=None, **kw):
    echo(message)
