"""Minimal Jinja2-compatible template engine (harness stub; jinja2 is not installable offline).

Implements the subset of the language that xsdata's templates use: {{ expr }} with filters,
{% set %} (inline and block form), {% if/elif/else %}, {% for ... [if ...] %}, {% include expr %},
{% filter %}, {% with %}, whitespace control with '-', and expressions with attribute access,
subscripts, calls with keyword arguments, arithmetic, comparisons, `is [not] none`, boolean
operators and conditional expressions. Scoping follows Jinja: for/with/filter/block-set bodies
get a child scope, an included template gets a copy of the visible variables and its
assignments do not leak back.
"""
import os
import re

__version__ = "0-stub"


class _Undefined:
    def __bool__(self):
        return False

    def __str__(self):
        return ""

    def __iter__(self):
        return iter(())

    def __len__(self):
        return 0

    def __repr__(self):
        return "Undefined"

    def __eq__(self, other):
        return isinstance(other, _Undefined)

    def __hash__(self):
        return 0

    def __getattr__(self, item):
        if item.startswith("__"):
            raise AttributeError(item)
        return self


Undefined = _Undefined()


class TemplateNotFound(Exception):
    pass


class TemplateSyntaxError(Exception):
    pass


class FileSystemLoader:
    def __init__(self, searchpath):
        self.searchpath = [searchpath] if isinstance(searchpath, str) else list(searchpath)

    def get_source(self, name):
        for base in self.searchpath:
            path = os.path.join(base, name)
            if os.path.isfile(path):
                with open(path, encoding="utf-8") as f:
                    return f.read()
        raise TemplateNotFound(name)


# ---------------------------------------------------------------- built-in filters
def _f_default(value, default_value="", boolean=False):
    if isinstance(value, _Undefined) or (boolean and not value):
        return default_value
    return value


def _f_join(value, d="", attribute=None):
    if attribute is not None:
        value = [getattr(v, attribute) for v in value]
    return str(d).join(str(v) for v in value)


def _f_indent(s, width=4, first=False, blank=False):
    s = str(s)
    indention = width if isinstance(width, str) else " " * width
    newline = "\n"
    s += newline
    if blank:
        rv = (newline + indention).join(s.splitlines())
    else:
        lines = s.splitlines()
        rv = lines.pop(0)
        if lines:
            rv += newline + newline.join(indention + line if line else line for line in lines)
    if first:
        rv = indention + rv
    return rv


def _f_groupby(value, attribute, default=None, case_sensitive=False):
    def key(item):
        v = getattr(item, attribute, default) if not isinstance(item, dict) else item.get(attribute, default)
        return v.lower() if isinstance(v, str) and not case_sensitive else v

    items = sorted(value, key=key)
    groups = []
    for item in items:
        k = key(item)
        if groups and groups[-1][0] == k:
            groups[-1][2].append(item)
        else:
            orig = getattr(item, attribute, default) if not isinstance(item, dict) else item.get(attribute, default)
            groups.append([k, orig, [item]])
    return [(orig, lst) for _, orig, lst in groups]


BUILTIN_FILTERS = {
    "default": _f_default,
    "d": _f_default,
    "join": _f_join,
    "length": len,
    "count": len,
    "indent": _f_indent,
    "groupby": _f_groupby,
    "upper": lambda s: str(s).upper(),
    "lower": lambda s: str(s).lower(),
    "trim": lambda s: str(s).strip(),
    "string": str,
    "list": list,
    "first": lambda s: next(iter(s), Undefined),
    "replace": lambda s, a, b: str(s).replace(a, b),
}

# ---------------------------------------------------------------- lexer for templates
_TAG = re.compile(r"(\{\{-?|\{%-?|\{#-?)(.*?)(-?\}\}|-?%\}|-?#\})", re.S)


def _split_template(source):
    """Yield ('text', s) / ('var', expr) / ('stmt', s) with whitespace control applied."""
    if source.endswith("\n"):
        source = source[:-1]  # keep_trailing_newline=False
    pos = 0
    out = []
    strip_next = False
    for m in _TAG.finditer(source):
        text = source[pos : m.start()]
        if strip_next:
            text = text.lstrip()
        if m.group(1).endswith("-"):
            text = text.rstrip()
        if text:
            out.append(("text", text))
        kind = m.group(1)[:2]
        body = m.group(2).strip()
        if kind == "{{":
            out.append(("var", body))
        elif kind == "{%":
            out.append(("stmt", body))
        strip_next = m.group(3).startswith("-")
        pos = m.end()
    text = source[pos:]
    if strip_next:
        text = text.lstrip()
    if text:
        out.append(("text", text))
    return out


# ---------------------------------------------------------------- expression parser
_TOKEN = re.compile(
    r"\s*(?:(?P<num>\d+\.\d+|\d+)|(?P<str>\"(?:\\.|[^\"\\])*\"|'(?:\\.|[^'\\])*')|(?P<name>[A-Za-z_][A-Za-z0-9_]*)|(?P<op>==|!=|<=|>=|//|\*\*|[-+*/%~<>()\[\],.:|=]))"
)


def _tokenize(expr):
    tokens = []
    pos = 0
    expr = expr.rstrip()
    while pos < len(expr):
        m = _TOKEN.match(expr, pos)
        if not m:
            raise TemplateSyntaxError(f"bad expression near {expr[pos:pos + 20]!r} in {expr!r}")
        pos = m.end()
        if m.group("num") is not None:
            tokens.append(("num", m.group("num")))
        elif m.group("str") is not None:
            tokens.append(("str", m.group("str")))
        elif m.group("name") is not None:
            tokens.append(("name", m.group("name")))
        else:
            tokens.append(("op", m.group("op")))
    tokens.append(("end", ""))
    return tokens


def _unescape(s):
    body = s[1:-1]
    return re.sub(r"\\(.)", lambda m: {"n": "\n", "t": "\t", "r": "\r"}.get(m.group(1), m.group(1)), body)


class _Parser:
    """Recursive descent parser producing closures `f(ctx) -> value`."""

    def __init__(self, tokens, env):
        self.t = tokens
        self.i = 0
        self.env = env

    def peek(self):
        return self.t[self.i]

    def next(self):
        tok = self.t[self.i]
        self.i += 1
        return tok

    def accept(self, kind, value=None):
        tok = self.t[self.i]
        if tok[0] == kind and (value is None or tok[1] == value):
            self.i += 1
            return tok
        return None

    def expect(self, kind, value=None):
        tok = self.accept(kind, value)
        if tok is None:
            raise TemplateSyntaxError(f"expected {value or kind}, got {self.t[self.i]}")
        return tok

    def parse_expression(self):
        return self.parse_condexpr()

    def parse_condexpr(self):
        left = self.parse_or()
        while self.peek() == ("name", "if"):
            self.next()
            cond = self.parse_or()
            if self.accept("name", "else"):
                other = self.parse_condexpr()
            else:
                other = lambda ctx: Undefined  # noqa: E731
            left = (lambda a, c, b: lambda ctx: a(ctx) if c(ctx) else b(ctx))(left, cond, other)
        return left

    def parse_or(self):
        left = self.parse_and()
        while self.accept("name", "or"):
            right = self.parse_and()
            left = (lambda a, b: lambda ctx: a(ctx) or b(ctx))(left, right)
        return left

    def parse_and(self):
        left = self.parse_not()
        while self.accept("name", "and"):
            right = self.parse_not()
            left = (lambda a, b: lambda ctx: a(ctx) and b(ctx))(left, right)
        return left

    def parse_not(self):
        if self.accept("name", "not"):
            inner = self.parse_not()
            return lambda ctx: not inner(ctx)
        return self.parse_compare()

    def parse_compare(self):
        left = self.parse_math1()
        while True:
            tok = self.peek()
            if tok[0] == "op" and tok[1] in ("==", "!=", "<", ">", "<=", ">="):
                self.next()
                right = self.parse_math1()
                op = tok[1]
                left = (lambda a, b, op: lambda ctx: _cmp(op, a(ctx), b(ctx)))(left, right, op)
            elif tok == ("name", "in"):
                self.next()
                right = self.parse_math1()
                left = (lambda a, b: lambda ctx: a(ctx) in b(ctx))(left, right)
            elif tok == ("name", "not") and self.t[self.i + 1] == ("name", "in"):
                self.next()
                self.next()
                right = self.parse_math1()
                left = (lambda a, b: lambda ctx: a(ctx) not in b(ctx))(left, right)
            else:
                return left

    def parse_math1(self):
        left = self.parse_concat()
        while self.peek()[0] == "op" and self.peek()[1] in ("+", "-"):
            op = self.next()[1]
            right = self.parse_concat()
            if op == "+":
                left = (lambda a, b: lambda ctx: a(ctx) + b(ctx))(left, right)
            else:
                left = (lambda a, b: lambda ctx: a(ctx) - b(ctx))(left, right)
        return left

    def parse_concat(self):
        left = self.parse_math2()
        while self.accept("op", "~"):
            right = self.parse_math2()
            left = (lambda a, b: lambda ctx: str(a(ctx)) + str(b(ctx)))(left, right)
        return left

    def parse_math2(self):
        left = self.parse_unary()
        while self.peek()[0] == "op" and self.peek()[1] in ("*", "/", "//", "%"):
            op = self.next()[1]
            right = self.parse_unary()
            left = (lambda a, b, op: lambda ctx: _arith(op, a(ctx), b(ctx)))(left, right, op)
        return left

    def parse_unary(self):
        if self.accept("op", "-"):
            inner = self.parse_unary()
            return lambda ctx: -inner(ctx)
        if self.accept("op", "+"):
            return self.parse_unary()
        node = self.parse_primary()
        node = self.parse_postfix(node)
        node = self.parse_filter_expr(node)
        return node

    def parse_primary(self):
        tok = self.next()
        if tok[0] == "num":
            v = float(tok[1]) if "." in tok[1] else int(tok[1])
            return lambda ctx: v
        if tok[0] == "str":
            s = _unescape(tok[1])
            while self.peek()[0] == "str":
                s += _unescape(self.next()[1])
            return lambda ctx: s
        if tok[0] == "name":
            name = tok[1]
            if name in ("true", "True"):
                return lambda ctx: True
            if name in ("false", "False"):
                return lambda ctx: False
            if name in ("none", "None"):
                return lambda ctx: None
            return lambda ctx: ctx.resolve(name)
        if tok == ("op", "("):
            items = []
            is_tuple = False
            if not self.accept("op", ")"):
                items.append(self.parse_expression())
                while self.accept("op", ","):
                    is_tuple = True
                    if self.peek() == ("op", ")"):
                        break
                    items.append(self.parse_expression())
                self.expect("op", ")")
            else:
                is_tuple = True
            if is_tuple:
                return lambda ctx: tuple(i(ctx) for i in items)
            return items[0]
        if tok == ("op", "["):
            items = []
            if not self.accept("op", "]"):
                items.append(self.parse_expression())
                while self.accept("op", ","):
                    if self.peek() == ("op", "]"):
                        break
                    items.append(self.parse_expression())
                self.expect("op", "]")
            return lambda ctx: [i(ctx) for i in items]
        raise TemplateSyntaxError(f"unexpected token {tok}")

    def parse_call_args(self):
        args, kwargs = [], []
        if not self.accept("op", ")"):
            while True:
                if self.peek()[0] == "name" and self.t[self.i + 1] == ("op", "="):
                    key = self.next()[1]
                    self.next()
                    kwargs.append((key, self.parse_expression()))
                else:
                    args.append(self.parse_expression())
                if self.accept("op", ")"):
                    break
                self.expect("op", ",")
        return args, kwargs

    def parse_postfix(self, node):
        while True:
            if self.accept("op", "."):
                tok = self.next()
                attr = tok[1]
                node = (lambda n, attr: lambda ctx: _getattr(n(ctx), attr))(node, attr)
            elif self.accept("op", "["):
                idx = self.parse_expression()
                self.expect("op", "]")
                node = (lambda n, idx: lambda ctx: _getitem(n(ctx), idx(ctx)))(node, idx)
            elif self.accept("op", "("):
                args, kwargs = self.parse_call_args()
                node = (lambda n, args, kwargs: lambda ctx: n(ctx)(*[a(ctx) for a in args], **{k: v(ctx) for k, v in kwargs}))(node, args, kwargs)
            else:
                return node

    def parse_filter_expr(self, node):
        while True:
            if self.accept("op", "|"):
                node = self.parse_filter(node)
                node = self.parse_postfix_after_filter(node)
            elif self.peek() == ("name", "is"):
                self.next()
                negated = bool(self.accept("name", "not"))
                test = self.next()[1]
                node = (lambda n, test, negated: lambda ctx: _test(test, n(ctx)) != negated)(node, test, negated)
            else:
                return node

    def parse_postfix_after_filter(self, node):
        return node

    def parse_filter(self, node):
        name = self.expect("name")[1]
        args, kwargs = [], []
        if self.accept("op", "("):
            args, kwargs = self.parse_call_args()
        env = self.env

        def apply(ctx, node=node, name=name, args=args, kwargs=kwargs):
            func = env.filters.get(name)
            if func is None:
                raise TemplateSyntaxError(f"no filter named {name!r}")
            return func(node(ctx), *[a(ctx) for a in args], **{k: v(ctx) for k, v in kwargs})

        return apply

    def parse_filter_chain_only(self):
        """`name(args) | name2 ...` as used by {% filter %} and block {% set x | f %}."""
        chain = []
        while True:
            name = self.expect("name")[1]
            args, kwargs = [], []
            if self.accept("op", "("):
                args, kwargs = self.parse_call_args()
            chain.append((name, args, kwargs))
            if not self.accept("op", "|"):
                break
        return chain


def _cmp(op, a, b):
    if op == "==":
        return a == b
    if op == "!=":
        return a != b
    if op == "<":
        return a < b
    if op == ">":
        return a > b
    if op == "<=":
        return a <= b
    return a >= b


def _arith(op, a, b):
    if op == "*":
        return a * b
    if op == "/":
        return a / b
    if op == "//":
        return a // b
    return a % b


def _getattr(obj, attr):
    try:
        return getattr(obj, attr)
    except AttributeError:
        try:
            return obj[attr]
        except (TypeError, LookupError, AttributeError):
            return Undefined


def _getitem(obj, idx):
    try:
        return obj[idx]
    except (TypeError, LookupError):
        if isinstance(idx, str):
            return getattr(obj, idx, Undefined)
        return Undefined


def _test(name, value):
    if name in ("none", "None"):
        return value is None
    if name == "defined":
        return not isinstance(value, _Undefined)
    if name == "undefined":
        return isinstance(value, _Undefined)
    if name == "string":
        return isinstance(value, str)
    if name == "true":
        return value is True
    if name == "false":
        return value is False
    raise TemplateSyntaxError(f"no test named {name!r}")


# ---------------------------------------------------------------- context
class Context:
    def __init__(self, env, variables, parent=None):
        self.env = env
        self.vars = variables
        self.parent = parent

    def resolve(self, name):
        c = self
        while c is not None:
            if name in c.vars:
                return c.vars[name]
            c = c.parent
        if name in self.env.globals:
            return self.env.globals[name]
        return Undefined

    def child(self, variables=None):
        return Context(self.env, dict(variables or {}), self)

    def flatten(self):
        chain = []
        c = self
        while c is not None:
            chain.append(c.vars)
            c = c.parent
        out = {}
        for v in reversed(chain):
            out.update(v)
        return out


# ---------------------------------------------------------------- statement compiler
class Template:
    def __init__(self, env, name, source):
        self.env = env
        self.name = name
        self.parts = _split_template(source)
        self.pos = 0
        self.body = self._parse_block(())
        if self.pos != len(self.parts):
            raise TemplateSyntaxError(f"{name}: unexpected {self.parts[self.pos]}")

    def _expr(self, text):
        p = _Parser(_tokenize(text), self.env)
        node = p.parse_expression()
        if p.peek()[0] != "end":
            raise TemplateSyntaxError(f"{self.name}: trailing tokens in {text!r}: {p.peek()}")
        return node

    def _parse_block(self, end_words):
        nodes = []
        while self.pos < len(self.parts):
            kind, body = self.parts[self.pos]
            if kind == "text":
                self.pos += 1
                nodes.append((lambda s: lambda ctx, out: out.append(s))(body))
            elif kind == "var":
                self.pos += 1
                e = self._expr(body)
                nodes.append((lambda e: lambda ctx, out: out.append(_to_str(e(ctx))))(e))
            else:
                word = body.split(None, 1)[0]
                if word in end_words:
                    return nodes
                self.pos += 1
                rest = body[len(word) :].strip()
                nodes.append(self._parse_statement(word, rest))
        if end_words:
            raise TemplateSyntaxError(f"{self.name}: missing {end_words}")
        return nodes

    def _end(self, word):
        kind, body = self.parts[self.pos]
        assert kind == "stmt" and body.split(None, 1)[0] == word, (self.name, body, word)
        self.pos += 1

    def _parse_statement(self, word, rest):
        if word == "set":
            return self._stmt_set(rest)
        if word == "if":
            return self._stmt_if(rest)
        if word == "for":
            return self._stmt_for(rest)
        if word == "include":
            e = self._expr(rest)
            env = self.env

            def run_include(ctx, out, e=e):
                tpl = env.get_template(e(ctx))
                sub = Context(env, ctx.flatten())
                tpl._run(tpl.body, sub, out)

            return run_include
        if word == "filter":
            p = _Parser(_tokenize(rest), self.env)
            chain = p.parse_filter_chain_only()
            body = self._parse_block(("endfilter",))
            self._end("endfilter")
            return self._with_filters(chain, body, target=None)
        if word == "with":
            p = _Parser(_tokenize(rest), self.env)
            assigns = []
            while p.peek()[0] != "end":
                name = p.expect("name")[1]
                p.expect("op", "=")
                assigns.append((name, p.parse_expression()))
                if not p.accept("op", ","):
                    break
            body = self._parse_block(("endwith",))
            self._end("endwith")

            def run_with(ctx, out, assigns=assigns, body=body):
                values = {k: v(ctx) for k, v in assigns}
                self._run(body, ctx.child(values), out)

            return run_with
        raise TemplateSyntaxError(f"{self.name}: unsupported statement {word!r}")

    def _with_filters(self, chain, body, target):
        env = self.env

        def run(ctx, out):
            buf = []
            self._run(body, ctx.child(), buf)
            value = "".join(buf)
            for name, args, kwargs in chain:
                func = env.filters.get(name)
                if func is None:
                    raise TemplateSyntaxError(f"no filter named {name!r}")
                value = func(value, *[a(ctx) for a in args], **{k: v(ctx) for k, v in kwargs})
            if target is None:
                out.append(_to_str(value))
            else:
                ctx.vars[target] = value

        return run

    def _stmt_set(self, rest):
        m = re.match(r"([A-Za-z_][A-Za-z0-9_]*)\s*(=|\|)?\s*(.*)$", rest, re.S)
        name, op, tail = m.group(1), m.group(2), m.group(3)
        if op == "=":
            e = self._expr(tail)

            def run_set(ctx, out, name=name, e=e):
                ctx.vars[name] = e(ctx)

            return run_set
        chain = []
        if op == "|":
            p = _Parser(_tokenize(tail), self.env)
            chain = p.parse_filter_chain_only()
        body = self._parse_block(("endset",))
        self._end("endset")
        return self._with_filters(chain, body, target=name)

    def _stmt_if(self, rest):
        branches = []
        cond = self._expr(rest)
        while True:
            body = self._parse_block(("elif", "else", "endif"))
            branches.append((cond, body))
            kind, text = self.parts[self.pos]
            word = text.split(None, 1)[0]
            self.pos += 1
            if word == "elif":
                cond = self._expr(text[4:].strip())
            elif word == "else":
                body = self._parse_block(("endif",))
                self._end("endif")
                branches.append((None, body))
                break
            else:
                break

        def run_if(ctx, out, branches=branches):
            for cond, body in branches:
                if cond is None or cond(ctx):
                    self._run(body, ctx, out)
                    return

        return run_if

    def _stmt_for(self, rest):
        m = re.match(r"(.+?)\s+in\s+(.+)$", rest, re.S)
        targets = [t.strip() for t in m.group(1).split(",")]
        tail = m.group(2)
        cond = None
        # split a trailing inline `if` that is not part of a conditional expression
        depth = 0
        toks = _tokenize(tail)
        split_at = None
        for i, tok in enumerate(toks):
            if tok[0] == "op" and tok[1] in "([":
                depth += 1
            elif tok[0] == "op" and tok[1] in ")]":
                depth -= 1
            elif tok == ("name", "if") and depth == 0:
                split_at = i
        if split_at is not None and ("name", "else") not in toks[split_at:]:
            p = _Parser(toks[:split_at] + [("end", "")], self.env)
            iterable = p.parse_expression()
            p2 = _Parser(toks[split_at + 1 :], self.env)
            cond = p2.parse_expression()
        else:
            iterable = self._expr(tail)
        body = self._parse_block(("endfor", "else"))
        else_body = None
        kind, text = self.parts[self.pos]
        if text.split(None, 1)[0] == "else":
            self.pos += 1
            else_body = self._parse_block(("endfor",))
        self._end("endfor")

        def run_for(ctx, out):
            items = list(iterable(ctx))
            if cond is not None:
                kept = []
                for item in items:
                    sub = ctx.child(_bind(targets, item))
                    if cond(sub):
                        kept.append(item)
                items = kept
            if not items and else_body is not None:
                self._run(else_body, ctx, out)
            n = len(items)
            for i, item in enumerate(items):
                scope = _bind(targets, item)
                scope["loop"] = _Loop(i, n)
                self._run(body, ctx.child(scope), out)

        return run_for

    def _run(self, nodes, ctx, out):
        for node in nodes:
            node(ctx, out)

    def render(self, *args, **kwargs):
        variables = dict(*args, **kwargs)
        out = []
        self._run(self.body, Context(self.env, variables), out)
        return "".join(out)


class _Loop:
    def __init__(self, i, n):
        self.index0 = i
        self.index = i + 1
        self.first = i == 0
        self.last = i == n - 1
        self.length = n


def _bind(targets, item):
    if len(targets) == 1:
        return {targets[0]: item}
    values = list(item)
    if len(values) != len(targets):
        raise ValueError("cannot unpack loop item")
    return dict(zip(targets, values))


def _to_str(value):
    if isinstance(value, str):
        return value
    return str(value)


class Environment:
    def __init__(self, loader=None, autoescape=False, **options):
        self.loader = loader
        self.autoescape = autoescape
        self.globals = {"range": range, "dict": dict}
        self.filters = dict(BUILTIN_FILTERS)
        self._cache = {}

    def get_template(self, name):
        tpl = self._cache.get(name)
        if tpl is None:
            tpl = self._cache[name] = Template(self, name, self.loader.get_source(name))
        return tpl

    def from_string(self, source):
        return Template(self, "<string>", source)
