"""Faithful re-implementation of the `toposort` package API used by xsdata (harness stub)."""
from functools import reduce as _reduce

__all__ = ["toposort", "toposort_flatten", "CircularDependencyError"]


class CircularDependencyError(ValueError):
    def __init__(self, data):
        s = "Circular dependencies exist among these items: {{{}}}".format(
            ", ".join("{!r}:{!r}".format(key, value) for key, value in sorted(data.items()))
        )
        super().__init__(s)
        self.data = data


def toposort(data):
    """Yield sets of items in dependency order (dependencies first)."""
    if len(data) == 0:
        return
    data = data.copy()
    for k, v in data.items():
        v.discard(k)
    extra_items_in_deps = _reduce(set.union, data.values()) - set(data.keys())
    data.update({item: set() for item in extra_items_in_deps})
    while True:
        ordered = {item for item, dep in data.items() if len(dep) == 0}
        if not ordered:
            break
        yield ordered
        data = {item: (dep - ordered) for item, dep in data.items() if item not in ordered}
    if len(data) != 0:
        raise CircularDependencyError(data)


def toposort_flatten(data, sort=True):
    result = []
    for d in toposort(data):
        result.extend((sorted if sort else list)(d))
    return result
