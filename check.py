import os
import sys

sys.path.insert(0, os.path.dirname(os.path.abspath(__file__)))
from sim.driver import main  # noqa: E402

if __name__ == "__main__":
    sys.exit(main())
