#!/bin/sh
# Offline setup: verify the interpreter, the repo import and the tools the simulators need.
set -e
cd "$(dirname "$0")"
/venv/bin/python - <<'PY'
import sys
sys.path.insert(0, "/repo")
import xsdata, lxml.etree  # noqa
assert sys.version_info >= (3, 12), sys.version
PY
command -v setarch >/dev/null
mkdir -p evidence replays
echo "setup ok"
