#!/bin/sh
# tools/try_patch.sh <worktree> <subdir-with-patch.diff-and-demo.py> <prop> [deps] [extra check args]
# Applies the patch to the (clean) worktree, confirms it, runs the check against it, reverts.
d=$1; m=$2; prop=$3; shift 3
deps=""; if [ "$1" = "deps" ]; then deps=":/tmp/mut/deps"; shift; fi
cd "$d" || exit 2
git checkout -q -- xsdata; git apply "$m/patch.diff" || { echo "patch failed"; exit 2; }
mkdir -p $d-tmp
echo "== tests with change"; TMPDIR=$d-tmp PYTHONPATH=$d timeout 900 /venv/bin/python -m pytest -q -p no:cacheprovider --timeout=900 --continue-on-collection-errors . 2>&1 | tail -1
echo "== demo with change"; PATH=/tmp/mut/deps/bin:$PATH PYTHONPATH=$d$deps timeout 900 /venv/bin/python $m/demo.py >/dev/null 2>&1; echo "exit=$?"
git checkout -q -- xsdata
echo "== demo without change"; PATH=/tmp/mut/deps/bin:$PATH PYTHONPATH=$d$deps timeout 900 /venv/bin/python $m/demo.py >/dev/null 2>&1; echo "exit=$?"
git apply "$m/patch.diff"
echo "== check $prop against mutant"; cd /verif && VERIF_REPO=$d timeout 1800 ./check $prop --no-evidence "$@" 2>&1 | grep -v KNOWN | cut -c1-330 | tail -5
cd "$d" && git checkout -q -- xsdata
