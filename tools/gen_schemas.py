#!/usr/bin/env python3
"""Generate the committed schema corpus /verif/sim/c12/schemas/gen*/ (fixed seed; rerun only on purpose).

Each set is 2-4 schema files whose types refer to each other across files (cycles included), with
a small colliding vocabulary of type, element and attribute names (case variants, reserved words,
*Class/*Type suffixes), unions of native types, several sibling choices and sequences per type,
groups, attribute groups, enumerations, substitution groups, simple content, any/anyAttribute.
"""
import os
import random
import sys

OUT = os.path.join(os.path.dirname(os.path.dirname(os.path.abspath(__file__))), "sim", "c12", "schemas")
TYPE_WORDS = ["Item", "Entry", "Record", "Party", "Status", "Node", "Link", "HazardClass", "ServiceClass", "UnitType", "item", "Value", "Type"]
EL_WORDS = ["item", "Item", "entry", "name", "value", "type", "class", "def", "id", "note", "code", "ref", "link", "status", "first-name", "first_name", "1st", "x"]
ATTR_WORDS = ["id", "ID", "type", "lang", "class", "value", "code", "ref", "created_by", "createdBy"]
NATIVE = ["xs:string", "xs:int", "xs:boolean", "xs:date", "xs:dateTime", "xs:decimal", "xs:float", "xs:QName", "xs:anyURI", "xs:positiveInteger", "xs:token", "xs:gYear", "xs:duration", "xs:hexBinary"]
FILE_WORDS = ["orders", "sales_invoice", "purchase_order", "stock", "common", "base_types", "core", "ext"]


def gen_set(k, rng):
    nfiles = rng.choice([2, 3, 3, 4])
    files = []
    fnames = rng.sample(FILE_WORDS, nfiles)
    for i in range(nfiles):
        ns = f"urn:gs:{k}:{'abcd'[i]}" if rng.random() < 0.85 or i == 0 else files[0]["ns"]
        files.append({"name": fnames[i] + ".xsd", "ns": ns, "prefix": "n%d" % i, "types": [], "simple": [], "elements": []})
    # declare names first so that references across files are always valid
    for f in files:
        for _ in range(rng.choice([3, 4, 5, 7])):
            w = rng.choice(TYPE_WORDS)
            if w not in f["types"]:
                f["types"].append(w)
        for _ in range(rng.choice([1, 2, 3])):
            w = rng.choice(["Code", "Kind", "Measure", "Codes", "Status", "Level"]) + rng.choice(["", "Type", "Enum"])
            if w not in f["simple"] and w not in f["types"]:
                f["simple"].append(w)
    prefix_of = {f["ns"]: f["prefix"] for f in files}
    for f in files:
        lines = ['<?xml version="1.0" encoding="UTF-8"?>']
        nsdecl = " ".join(f'xmlns:{p}="{ns}"' for ns, p in prefix_of.items())
        lines.append(f'<xs:schema xmlns:xs="http://www.w3.org/2001/XMLSchema" {nsdecl} targetNamespace="{f["ns"]}" elementFormDefault="{rng.choice(["qualified", "qualified", "unqualified"])}">')
        seen_ns = set()
        for g in files:
            if g is f:
                continue
            if g["ns"] == f["ns"]:
                lines.append(f'  <xs:include schemaLocation="{g["name"]}"/>')
            elif g["ns"] not in seen_ns:
                seen_ns.add(g["ns"])
                lines.append(f'  <xs:import namespace="{g["ns"]}" schemaLocation="{g["name"]}"/>')

        def ref_type():
            g = rng.choice(files)
            if rng.random() < 0.6 and g["types"]:
                return f'{prefix_of[g["ns"]]}:{rng.choice(g["types"])}'
            if rng.random() < 0.4 and g["simple"]:
                return f'{prefix_of[g["ns"]]}:{rng.choice(g["simple"])}'
            return rng.choice(NATIVE)

        def occurs():
            return rng.choice(["", ' minOccurs="0"', ' maxOccurs="unbounded"', ' minOccurs="0" maxOccurs="unbounded"', ' minOccurs="0" maxOccurs="3"'])

        def particle(depth=0):
            out = []
            kind = rng.choice(["sequence", "sequence", "choice", "choice", "all"]) if depth == 0 else rng.choice(["sequence", "choice"])
            occ = "" if kind == "all" else rng.choice(["", "", ' maxOccurs="unbounded"', ' minOccurs="0"'])
            out.append(f"<xs:{kind}{occ}>")
            used = set()
            for _ in range(rng.choice([1, 2, 3, 4, 5])):
                r = rng.random()
                if r < 0.15 and depth < 2 and kind != "all":
                    out.extend(particle(depth + 1))
                elif r < 0.22 and kind != "all":
                    out.append(f'<xs:any namespace="{rng.choice(["##any", "##other", "##local"])}" processContents="lax"{occurs()}/>')
                else:
                    nm = rng.choice(EL_WORDS)
                    if kind == "all" and nm in used:
                        continue
                    used.add(nm)
                    o = occurs() if kind != "all" else rng.choice(["", ' minOccurs="0"'])
                    extra = rng.choice(["", "", ' nillable="true"', ' default="x"']) if rng.random() < 0.2 else ""
                    tp = ref_type()
                    if "default" in extra and not tp.startswith("xs:string"):
                        extra = ""
                    out.append(f'<xs:element name="{nm}" type="{tp}"{o}{extra}/>')
            out.append(f"</xs:{kind}>")
            return out

        for tname in f["types"]:
            style = rng.random()
            mixed_attr = rng.choice(["", "", ' mixed="true"']) if style > 0.9 else ""
            lines.append(f'  <xs:complexType name="{tname}"{mixed_attr}>')
            if rng.random() < 0.4:
                doc = rng.choice(["short", "a somewhat longer description that needs wrapping in the generated docstring because it exceeds the line length", 'with "quotes" and a \\ backslash'])
                lines.append(f"    <xs:annotation><xs:documentation>{tname} of set {k}: {doc}.</xs:documentation></xs:annotation>")
            if style < 0.15:
                lines.append(f'    <xs:simpleContent><xs:extension base="{rng.choice(NATIVE)}"><xs:attribute name="{rng.choice(ATTR_WORDS)}" type="{rng.choice(NATIVE)}"/></xs:extension></xs:simpleContent>')
            elif style < 0.35 and len(f["types"]) > 1:
                base = rng.choice([t for t in f["types"] if t != tname])
                lines.append(f'    <xs:complexContent><xs:extension base="{f["prefix"]}:{base}">')
                lines.extend("      " + x for x in particle())
                lines.append("    </xs:extension></xs:complexContent>")
            else:
                lines.extend("    " + x for x in particle())
                used_attrs = set()
                for _ in range(rng.choice([0, 1, 2, 3])):
                    an = rng.choice(ATTR_WORDS)
                    if an in used_attrs:
                        continue
                    used_attrs.add(an)
                    simple = [s for g in files for s in ([f'{prefix_of[g["ns"]]}:{x}' for x in g["simple"]])]
                    tp = rng.choice(NATIVE + simple)
                    use = rng.choice(["", ' use="required"', ""])
                    lines.append(f'    <xs:attribute name="{an}" type="{tp}"{use}/>')
                if rng.random() < 0.15:
                    lines.append('    <xs:anyAttribute namespace="##other" processContents="lax"/>')
            lines.append("  </xs:complexType>")
        for sname in f["simple"]:
            r = rng.random()
            lines.append(f'  <xs:simpleType name="{sname}">')
            if r < 0.45:
                vals = rng.sample(["a", "A", "a-1", "a_1", "1a", "b c", "", "true", "None", "class", "é", "x/y"], rng.choice([2, 3, 5]))
                lines.append('    <xs:restriction base="xs:string">' + "".join(f'<xs:enumeration value="{v}"/>' for v in vals) + "</xs:restriction>")
            elif r < 0.75:
                lines.append(f'    <xs:union memberTypes="{" ".join(rng.sample(NATIVE, rng.choice([2, 3, 4])))}"/>')
            elif r < 0.9:
                lines.append(f'    <xs:list itemType="{rng.choice(NATIVE)}"/>')
            else:
                lines.append('    <xs:restriction base="xs:decimal"><xs:minInclusive value="0"/><xs:totalDigits value="6"/></xs:restriction>')
            lines.append("  </xs:simpleType>")
        heads = []
        for tname in f["types"][: rng.choice([1, 2, 3])]:
            en = rng.choice([tname[0].lower() + tname[1:], tname, rng.choice(EL_WORDS)])
            if en in f["elements"]:
                continue
            f["elements"].append(en)
            sg = ""
            if heads and rng.random() < 0.4:
                sg = f' substitutionGroup="{f["prefix"]}:{heads[0][0]}"'
                tname_use = heads[0][1]
            else:
                tname_use = tname
            lines.append(f'  <xs:element name="{en}" type="{f["prefix"]}:{tname_use}"{sg}/>')
            if not sg:
                heads.append((en, tname))
        lines.append("</xs:schema>")
        f["text"] = "\n".join(lines) + "\n"
    return files


def main():
    rng = random.Random(424242)
    for k in range(1, 9):
        files = gen_set(k, rng)
        d = os.path.join(OUT, f"gen{k}")
        os.makedirs(d, exist_ok=True)
        for name in os.listdir(d):
            os.remove(os.path.join(d, name))
        for f in files:
            with open(os.path.join(d, f["name"]), "w", encoding="utf-8") as fh:
                fh.write(f["text"])
        print(d, [f["name"] for f in files])


if __name__ == "__main__":
    sys.exit(main())
