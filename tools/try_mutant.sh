#!/bin/sh
# tools/try_mutant.sh <worktree-with-uncommitted-change> <prop> [extra check args]
# Confirms the mutant (tests still 263 passed, demo fails with / passes without) and runs a check against it.
d=$1; prop=$2; shift 2
cd "$d" || exit 2
echo "== tests with change"; PYTHONPATH=$d timeout 900 /venv/bin/python -m pytest -q -p no:cacheprovider --timeout=900 --continue-on-collection-errors . 2>&1 | tail -1
echo "== demo with change"; PYTHONPATH=$d timeout 300 /venv/bin/python demo.py >/dev/null 2>&1; echo "exit=$?"
git stash -q; echo "== demo without change"; PYTHONPATH=$d timeout 300 /venv/bin/python demo.py >/dev/null 2>&1; echo "exit=$?"; git stash pop -q
echo "== check $prop against mutant"; cd /verif && VERIF_REPO=$d timeout 1800 ./check $prop --no-evidence "$@" 2>&1 | cut -c1-400 | tail -12
